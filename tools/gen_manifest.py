#!/usr/bin/env python3
"""Regenerate MANIFEST.json from the table below (keeps it schema-valid)."""
import json
import os

ROOT = os.path.dirname(os.path.dirname(os.path.abspath(__file__)))

CLAIMED = {
    "C09": dict(
        category="exploration",
        text="Seeded simulation of the server input stream under the real LimitedStream / get_input_stream (raw, under io.BufferedReader, under io.TextIOWrapper): "
        "tape-chosen short reads, missing readinto, OSError at call i, early EOF; monitors after every application read (no over-read, no over-yield, prefix, "
        "position accounting, exception types, disconnect/413 surfacing, silent-truncation, bounded calls per operation) plus the get_input_stream decision table "
        "as a reference model. Sampling is the right level: the space is (operation history x fragmentation x fault point) and the oracle is cheap, so hundreds of "
        "thousands of distinct histories run per check.",
        design_ref="3.6",
        note="Trusted: SimStream, the monitors, stdlib io wrappers. The stream-level oracle accepts the documented maximum-mode contract (read() stops at the maximum; the next read raises 413).",
        technique="deterministic simulation: seeded read histories over a fault-injecting simulated input stream, invariant monitors + decision-table reference model",
    ),
}

CLAIMED.update({
    "C01": dict(
        category="fault_enumeration",
        text="For each generated well-formed multipart body (own renderer; CRLF / bare-LF / bare-CR styles; body-less parts; payloads built from line breaks, dashes, "
        "delimiter prefixes and look-alikes) the real MultipartDecoder is run under arrival schedules chosen by the simulator - every single cut of the body, every pair of "
        "cuts for small bodies, byte-at-a-time, random and structure-biased k-way cuts - and the real MultiPartParser under every buffer_size 1..len+1 and short reads of its "
        "input stream; each result is compared with the trivial schedule (whole body) and with the generator's ground truth. The cut sweeps are exhaustive per body, the bodies are sampled.",
        design_ref="3.1",
        note="Trusted: the harness's renderer and ground truth. Preamble/epilogue bytes are not compared (as the property says).",
        technique="deterministic simulation: exhaustive cut-point / buffer-size sweeps per seeded body, differential oracle against the trivial schedule",
    ),
    "C02": dict(
        category="exploration",
        text="Upload pipeline simulation: a client actor with the ground truth encodes through MultipartEncoder (Data events split by the tape, incl. empty events), "
        "stream_encode_multipart (files read through short-reading SimFiles, tempfile spill threshold varied) or EnvironBuilder (boundary pinned through the time/random seam so "
        "near-copies can be planted); bytes travel through cuts / a short-reading SimStream into MultipartDecoder, MultiPartParser or Request.form/files; conservation oracle. "
        "The urlencoded / query-string clause has no schedule in it and runs as seeded workload only (stated in DESIGN.md 3.2).",
        design_ref="3.2",
        note="Trusted: the ground-truth ordering model (MultiDict grouping). Names exclude the characters the property excludes.",
        technique="deterministic simulation: encoder event-splitting histories x file short reads x transport fragmentation, conservation oracle against ground truth",
    ),
    "C10": dict(
        category="exploration",
        text="Form-limit simulation over the real decoder / MultiPartParser / FormDataParser / Request: bodies built around each limit (fields of limit-1/limit/limit+1 bytes, many small "
        "parts, huge header block, no delimiter at all, CR/LF-only lines, urlencoded) x limit configurations relative to the body x framing (declared length, server-terminated, "
        "chunked) x buffer size and short-read tape, with truncation and OSError as a separate fault configuration. A spy subclass of the real decoder records the buffer size after "
        "every receive_data; bytes taken from the input are counted. Outcome oracle: success implies every limit was respected AND the result equals the parse without limits under the "
        "same schedule; only 413 / ClientDisconnected (under faults) / the unlimited parse's own ValueError may be raised.",
        design_ref="3.7",
        note="One-directional like the property (a 413 is only flagged as spurious when every limit is at least the whole body size). Known finding L2 is recorded in known_findings.json.",
        technique="deterministic simulation: limit configurations x fragmenting, fault-injecting input stream, buffer monitor + differential oracle against the unlimited parse",
    ),
    "C18": dict(
        category="exploration",
        text="The same generated history (set/get/delete, iterate, push/pop/top, release, cleanup, proxies of five kinds created in one context and used in another, child spawns, "
        "task cancellation) runs on real werkzeug.local objects in four realisations of 'context': contextvars.Context.run; real threads stepped one operation at a time by a baton; "
        "free-running real threads whose every line inside werkzeug/local.py is a pre-emption point decided by the schedule tape; real asyncio.Tasks on a seeded virtual-time event loop "
        "that picks the next ready callback from the tape. A reference model (one mapping, stack and value per context; children copy the parent's snapshot) is updated inline; after every "
        "step the acting context's complete visible state - and in the stepped realisations every context's - must equal its model; proxies must resolve per accessing context and behave "
        "unbound exactly where the model has no binding.",
        design_ref="3.10",
        note="Sampling of interleavings, not enumeration. Pre-emption is at operation boundaries and at line granularity inside local.py; bytecode-level races are out of reach.",
        technique="deterministic simulation: seeded interleavings of contexts/threads/tasks (baton scheduler, line-level pre-emption, virtual-time event loop) against a per-context reference model",
    ),
    "C19": dict(
        category="exploration",
        text="The real WSGIRequestHandler (make_environ / run_wsgi, DechunkedInput; stdlib BaseHTTPRequestHandler and BufferedReader under it) runs synchronously on an in-process "
        "simulated socket: a client script (request line forms, header sets, Content-Length or generated chunked framing, Expect: 100-continue gating) is delivered in tape-chosen "
        "fragments through a BufferedReader of swarm-chosen size; the client may hang up mid-body, send malformed chunk framing (truncated, negative, non-hex, lenient int() syntax, "
        "missing terminator, oversize, unterminated header) or reset while the response is sent; an application actor reads with a generated pattern and answers from a generated "
        "response spec (iterable / write() / mixed). Conservation oracles both ways against an independent strict response parser and de-chunker; DechunkedInput is also driven directly.",
        design_ref="3.11",
        note="The socket pair, selector and server object are fakes (kernel buffering, TLS, the accept loop and threading/forking mix-ins are not simulated). Server/Date header values come from the stdlib and are not compared.",
        technique="deterministic simulation: real request handler on a simulated socket with fragmenting / hanging-up / resetting client and generated application, conservation oracles",
    ),
    "C07": dict(
        category="exploration",
        text="Hostile and corrupted clients at two injection levels: L1 a WSGI environ with seeded-mutated client-controlled variables is handed to Request; L2 the same request travels as "
        "bytes through the real dev-server handler on the simulated socket. The simulator decides the part of C07 that depends on I/O: form/files/values/data/get_data/json/stream are read "
        "from a SimStream with tape-chosen fragmentation, bodies shorter or longer than declared, injected OSError, server-terminated input and form limits; every escape must be an "
        "HTTPException. All other Request attributes and the named header/cookie/query parsers are pure functions of a string: they are touched on every simulated request as workload "
        "(seeded input generation only - the simulator adds nothing for them, and the evidence says so). A per-case CPU alarm bounds non-termination.",
        design_ref="3.4",
        note="Partial by design: header-only parsers ride along as workload. Requests the stdlib rejects before werkzeug code runs are outside the property. Known finding P4 (URL attributes with a malformed Host) is recorded.",
        technique="deterministic simulation of the body-dependent attributes (fragmenting, truncating, failing input stream; wire level through the real handler) + seeded hostile-value workload for the pure parsers",
    ),
    "C05": dict(
        category="exploration",
        text="An application actor builds a real Response through a generated history (eleven body shapes incl. generator, closable iterator and FileWrapper in direct passthrough; status as int / "
        "HTTPStatus / string; headers as list / dict / Headers; 18 header mutators with and without CR/LF; preset Content-Length; Location forms with autocorrect on/off; close callbacks; "
        "make_sequence / get_data before serving). A server actor then calls get_wsgi_response for GET/HEAD/POST, iterates the iterable as far as the schedule says - every abort point is "
        "swept for a third of the cases, the body iterator may raise - and calls close() once. Monitors after every mutator (stored values are CR/LF-free str; storing a CR/LF value raised "
        "ValueError) and history checks (native-string headers, ASCII Location, computed Content-Length equals bytes produced, no body for HEAD/1xx/204/304, no Content-Length for 1xx/204, every "
        "callback and the wrapped iterable's close ran exactly once). ClosingIterator is additionally driven directly.",
        design_ref="3.3",
        note="Known finding R1 (direct passthrough skips close callbacks) is recorded. Response.freeze()/set_data() replacing the body are outside the property's stated domain and are not generated.",
        technique="deterministic simulation: application mutator histories x server abort-point sweep (crash points) with counting close spies and per-step monitors",
    ),
    "C11": dict(
        category="exploration",
        text="'Origin and revalidating caches': a resource whose content, version, ETag (strong/weak/none) and Last-Modified (simulated clock with sub-second parts) change at simulated "
        "times - including twice within one second - is served through the real make_conditional / _RangeWrapper / FileWrapper / get_wsgi_response; client actors remember validators from "
        "earlier 200s and later send If-None-Match or If-Match lists, If-Modified-Since in three date formats, structurally generated Range headers and If-Range; the body is supplied as a "
        "list, a generator with tape-chosen chunking incl. empty chunks, or a FileWrapper over a SimFile (seekable or not, short reads, varying block size); the server actor iterates fully "
        "or aborts and closes. Every response is judged against a declarative reference evaluated on the current representation (sets of admissible outcomes where the property is silent). "
        "send_file runs on a real temporary file whose mtime is set from the simulated clock, with a staleness check over the history.",
        design_ref="3.8",
        note="Requests carry either validators or a Range (the property does not define their combination). HEAD with Range, other range units, weak validators in If-Match / If-Range and inner whitespace are grey areas: both outcomes accepted.",
        technique="deterministic simulation: write/revalidate histories on a simulated clock x body chunking / seekability / abort schedules, declarative reference oracle",
    ),
    "C08": dict(
        category="exploration",
        text="One run = one history of public operations (27 kinds on the MultiDict family, 38 on Headers, 15 on HeaderSet; every documented constructor / update argument form) on real containers, "
        "compared after every step - all public reads of every live object - with executable reference models (insertion-ordered multimap; ordered pairs with case-folded keys; case-insensitive "
        "ordered set). Views are functions of the models of what they wrap (CombinedMultiDict over the first two dicts, EnvironHeaders over an environ the history mutates). copy / copy.copy / "
        "deepcopy / pickle are operations inside the history (restart from durable state): the copy must read like the original, be independent afterwards, agree on == and hash; immutable "
        "variants must reject every mutator with TypeError and stay unchanged; HeaderSet.on_update must fire iff the content changed; converters that raise are injected.",
        design_ref="3.5",
        note="Sampled histories, not exhaustive enumeration. Keys with an empty value list are treated as present-without-values (deepcopy of such a dict is skipped). Known finding D3 (CombinedMultiDict ==) is recorded.",
        technique="deterministic simulation: seeded operation histories incl. copy/pickle 'restart' against executable reference models, all reads compared after every step",
    ),
    "C16": dict(
        category="exploration",
        text="One run = one history on one real Response: mutations through the live views (vary / allow / content_language, cache_control with all typed directives, www_authenticate type / token / "
        "parameters by item and attribute, content_security_policy and its report-only twin, content_range, mimetype_params), whole-property assignments, 22 typed scalar properties and direct "
        "header edits, interleaved; the harness holds one live view per header and re-fetches it after a direct edit or whole-property assignment. After every step the header text must equal the "
        "mutated view's serialisation (absent when the view is empty), the re-read property must equal the live view and - for the set views - the reference model; assign -> read of a typed "
        "property must give the documented normal form (dates at one-second resolution in UTC; retry_after = n reads back as simulated now + n through the clock seam).",
        design_ref="3.9",
        note="Two independently held views of the same header overwrite each other by design; not demanded. A challenge with neither token nor parameters serialises to '<Scheme> ' and reads back with token '': compared as equal.",
        technique="deterministic simulation: seeded mutation histories over live header views with a simulated clock, coherence invariants after every step + reference model for the set views",
    ),
    "C20": dict(
        category="exploration",
        text="Histories of requests against a real DebuggedApplication wrapping a failing application (real DebugTraceback frames) plus a spy frame that records whether evaluation was reached: "
        "command {eval in a frame, console eval, console page, pinauth, printpin, resource, plain} x secret {right, wrong, absent, previous instance's} x 30 Host forms x PIN cookie {valid, expired, "
        "issued in the future, wrong hash, malformed, absent, from the jar} x frame id x evalex on/off x PIN on/off. werkzeug.debug.time is a simulated clock, so the one-week cookie lifetime and the "
        "0.5 s / 5 s brute-force sleeps cost nothing; faults and schedules are clock jumps forwards and backwards, process restart (new instance: new secret, counter reset, old cookies still carry a "
        "valid hash) and overlapping pinauth attempts (right, wrong, stale cookie) in baton-scheduled real threads that are pre-empted at every line of werkzeug/debug/__init__.py and inside the simulated sleep, the counter's lock being scheduled by the simulator; their answers and the final counter must be explainable by some sequential order (linearizability against the sequential PIN model). Reference model: eval reachable iff evalex, trusted host, right "
        "secret, known frame and an unexpired valid cookie (or PIN off); console / PIN endpoints answer only trusted hosts; after more than ten failures even the right PIN is refused until restart. "
        "Host validation over a label grammar rides along as workload (a pure function).",
        design_ref="3.12",
        note="PIN attempt sequences go to 14 (quick) / 40 (thorough); the 8-bit failure counter wrapping at 256 is outside the stated domain (observation G2). pinauth with the PIN switched off is not generated (it fails with an internal error; observation O2).",
        technique="deterministic simulation: request histories on a simulated clock with clock jumps, restart and baton-scheduled concurrent attackers (line-level pre-emption, linearizability check), gate reference model with a spy frame",
    ),
})

NOT_APPLICABLE = {
    "C03": "MapAdapter.match is a stateless function of (rule set, configuration, path); no stream, clock, context, fault or object history for a simulator to control.",
    "C04": "Composition of two pure functions (build, match) over converter values; nothing schedule-, time- or fault-dependent.",
    "C06": "Pure header codecs (dump/parse pairs); no nondeterminism or state between input and output.",
    "C12": "The redirect target is a pure function of (map, bound host, path, query); following redirects iterates a deterministic function, nothing to schedule or fault.",
    "C13": "dump_cookie/parse_cookie are pure; the only clock read (max_age to Expires) and the client jar's expiry are not part of the statement.",
    "C14": "safe_join and secure_filename are pure; the static-file helpers add a lookup of a purely computed path with no race or fault in the statement.",
    "C15": "Pure IRI/URI/environ conversions and a pure mount-table lookup.",
    "C17": "Content negotiation is a pure function of (header, offers).",
}

# properties designed as claimed but whose check is not built yet are listed as
# not claimed *for now* so that the manifest never promises a check that does not exist
PENDING = {
    pid: "designed as a simulation target (DESIGN.md section 3) but its check is not built yet in this commit; not claimed until it is"
    for pid in ["C01", "C02", "C05", "C07", "C08", "C10", "C11", "C16", "C18", "C19", "C20"]
    if pid not in CLAIMED
}


def main():
    checks = []
    for pid in sorted(CLAIMED):
        c = CLAIMED[pid]
        checks.append(
            {
                "property_id": pid,
                "quick_cmd": f"./check {pid} quick",
                "thorough_cmd": f"./check {pid} thorough",
                "evidence_file": f"/verif/evidence/{pid}.json",
                "replay_cmd_template": "./check replay {path}",
                "engine": "dsim",
                "level_claimed": {"category": c["category"], "text": c["text"], "design_ref": "DESIGN.md section " + c["design_ref"]},
                "level_note": c["note"],
                "technique": c["technique"],
            }
        )
    na = [{"property_id": k, "reason": v} for k, v in sorted({**NOT_APPLICABLE, **PENDING}.items())]
    doc = {
        "version": 1,
        "setup_cmd": "/venv/bin/python -c \"import sys; sys.path.insert(0, '/repo/src'); import werkzeug, os; assert os.path.realpath(werkzeug.__file__).startswith('/repo/src')\"",
        "hooks": {
            "guard": "WERKZEUG_VERIF_SIM",
            "enable": "No source hooks are needed: every seam is a constructor argument, a documented extension point, or a module-level name the simulator rebinds at run time (DESIGN.md section 1). The guard name is reserved.",
            "baseline_off_cmd": "cd /repo && /venv/bin/python -m pytest -ra -q -p no:cacheprovider --timeout=900 --continue-on-collection-errors",
            "source_commits": [],
            "add_only": True,
        },
        "engines": [
            {
                "name": "dsim",
                "path": "/verif/dsim",
                "serves_properties": sorted(CLAIMED),
                "kind_free_text": "deterministic simulation with fault injection: seeded case generation, tape-driven schedules and faults over simulated streams, sockets, clock, threads, asyncio tasks and contexts; reference-model oracles; minimised replay files",
            }
        ],
        "checks": checks,
        "notes": "Checks run the working tree at /repo/src directly (pure Python, nothing to build). ./check selftest = determinism self-test; ./check sensitivity = mutants, seeded changes and reverted fixes must be caught. Known findings: known_findings.json.",
        "not_applicable": na,
    }
    with open(os.path.join(ROOT, "MANIFEST.json"), "w") as f:
        json.dump(doc, f, indent=2)
        f.write("\n")


if __name__ == "__main__":
    main()
