"""Write a hand-made regression replay: tools/mkreplay.py <scenario> <out.json> <class> <message> < case.json"""
import json
import sys

sys.path.insert(0, "/verif")
from dsim import paths  # noqa: F401,E402
from dsim import runner  # noqa: E402
import scenarios  # noqa: E402


def write(scn_name, case, out_path, cls, msg):
    scn = [s for lst in scenarios.REGISTRY.values() for s in lst if s.name == scn_name][0]
    o = runner.run_case(scn, case)
    doc = {"property": scn.pid, "scenario": scn.name, "verif_seed": 0, "case_index": -1, "violation_class": cls, "message": msg, "digest": o.digest,
           "case": case, "trace": o.trace[:50], "original_case": case, "handwritten": True}
    with open(out_path, "w") as f:
        json.dump(doc, f, indent=1, sort_keys=True)
        f.write("\n")
    print(out_path, "violations on the current tree:", o.violations[:2])


if __name__ == "__main__":
    write(sys.argv[1], json.load(sys.stdin), sys.argv[2], sys.argv[3], sys.argv[4])
