#!/usr/bin/env python3
"""Confirm seeded changes produced by independent sub-agents and file them under /verif/seeded/.

For each /tmp/seed-<PID>/out/<i>/ (patch.diff, demo.py, meta.json): in a fresh scratch worktree of /repo
(1) the demo passes on the unchanged tree, (2) the patch applies, (3) the demo fails with it,
(4) the unedited test suite passes with it.  Only then is the change copied to /verif/seeded/<PID>-<i>/
with what was run recorded in meta.json.  The scratch worktree is removed afterwards.
"""
import concurrent.futures as cf
import glob
import json
import os
import shutil
import subprocess
import sys

PY = "/venv/bin/python"


def sh(cmd, cwd=None, env=None, timeout=1200):
    p = subprocess.run(cmd, cwd=cwd, env=env, capture_output=True, text=True, timeout=timeout)
    return p.returncode, (p.stdout + p.stderr)[-1500:]


def confirm(src):
    import re

    m = re.match(r"seed(\d*)-(C\d+)$", src.split("/")[2])
    rnd, pid = m.group(1), m.group(2)
    idx = os.path.basename(src.rstrip("/"))
    name = f"{pid}-{idx}" if not rnd else f"{pid}-r{rnd}-{idx}"
    seed_root = "/".join(src.split("/")[:3])
    wt = f"/tmp/confirm-{name}"
    subprocess.run(["git", "-C", "/repo", "worktree", "remove", "--force", wt], capture_output=True)
    rc, out = sh(["git", "-C", "/repo", "worktree", "add", "-q", "--detach", wt, "HEAD"])
    if rc:
        return name, "worktree-failed", out
    env = dict(os.environ, PYTHONPATH=f"{wt}/src", PYTHONDONTWRITEBYTECODE="1")
    try:
        demo = os.path.join(src, "demo.py")
        demo_src = open(demo).read().replace(seed_root, wt)
        local_demo = os.path.join(wt, "_demo.py")
        open(local_demo, "w").write(demo_src)
        rc0, o0 = sh([PY, local_demo], cwd=wt, env=env)
        if rc0 != 0:
            return name, "demo-fails-on-clean-tree", o0
        rc, o = sh(["git", "apply", os.path.join(src, "patch.diff")], cwd=wt)
        if rc:
            return name, "patch-does-not-apply", o
        rc1, o1 = sh([PY, local_demo], cwd=wt, env=env)
        if rc1 == 0:
            return name, "demo-passes-with-change", o1
        rct, ot = sh([PY, "-m", "pytest", "-q", "-p", "no:cacheprovider", "-x", "--timeout=900", "tests"], cwd=wt, env=env)
        if rct != 0:
            return name, "test-suite-fails-with-change", ot
        dst = f"/verif/seeded/{name}"
        os.makedirs(dst, exist_ok=True)
        shutil.copy(os.path.join(src, "patch.diff"), os.path.join(dst, "patch.diff"))
        open(os.path.join(dst, "demo.py"), "w").write(open(demo).read())
        meta = json.load(open(os.path.join(src, "meta.json")))
        meta["property"] = pid
        meta["confirmed"] = {
            "scratch_worktree": "git -C /repo worktree add --detach /tmp/confirm-<id> HEAD (removed afterwards)",
            "demo_on_unchanged_tree": "exit 0",
            "demo_with_change": f"exit {rc1}",
            "test_suite_with_change": ot.strip().splitlines()[-1] if ot.strip() else "",
            "demo_failure_tail": o1.strip().splitlines()[-1][:300] if o1.strip() else "",
            "note": "demo.py refers to the sub-agent's worktree path /tmp/seed-<PID>; run it with PYTHONPATH=<tree>/src",
        }
        json.dump(meta, open(os.path.join(dst, "meta.json"), "w"), indent=1)
        return name, "confirmed", ot.strip().splitlines()[-1] if ot.strip() else ""
    finally:
        subprocess.run(["git", "-C", "/repo", "worktree", "remove", "--force", wt], capture_output=True)
        shutil.rmtree(wt, ignore_errors=True)


if __name__ == "__main__":
    srcs = sorted(d for pat in (sys.argv[1:] or ["/tmp/seed-*/out/*"]) for d in glob.glob(pat) if os.path.isdir(d))
    with cf.ThreadPoolExecutor(4) as ex:
        for name, status, detail in ex.map(confirm, srcs):
            print(f"{status:32s} {name}  {detail.strip().splitlines()[-1][:150] if detail.strip() else ''}", flush=True)
