#!/bin/bash
# usage: tools/mkbenign.sh <name> "<properties>" <file relative to /repo> <old> <new>
set -e
name=$1; prop=$2; file=$3; old=$4; new=$5
T=$(mktemp -d /tmp/mkben.XXXXXX)
mkdir -p $T/a $T/b && cp -r /repo/src $T/a/src && cp -r /repo/src $T/b/src
find $T -name __pycache__ -prune -exec rm -rf {} +
python3 - "$T/b/$file" "$old" "$new" <<'PY'
import sys
f,old,new=sys.argv[1:4]
s=open(f).read()
assert s.count(old)>=1,(old,'not found in',f)
open(f,'w').write(s.replace(old,new,1))
PY
(echo "# property: $prop"; echo "# benign: the property still holds with this change; the checks must stay quiet"; cd $T && diff -ru a/src b/src | grep -v '^Only in' | sed -E 's/^(---|\+\+\+) ([^\t]*)\t.*/\1 \2/') > /verif/benign/$name.patch || true
rm -rf $T
echo "wrote benign/$name.patch"
