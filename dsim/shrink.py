"""Generic minimiser for JSON cases.

Works on the case structure itself: drops list spans and items, shortens
strings (bytes travel as latin-1 strings), lowers integers towards 0, turns
booleans off, and replaces optional values by ``None`` - keeping a candidate
only while the *same violation class* is still reported.  Because an exhausted
or shortened schedule tape is a legal (more trivial) schedule, every candidate
is an executable case.
"""
from __future__ import annotations

import copy
import time
import typing as t

Path = tuple


def _walk(node: t.Any, path: Path = ()) -> t.Iterator[tuple[Path, t.Any]]:
    yield path, node
    if isinstance(node, dict):
        for k in sorted(node):
            yield from _walk(node[k], path + (k,))
    elif isinstance(node, list):
        for i, v in enumerate(node):
            yield from _walk(v, path + (i,))


def _get(root: t.Any, path: Path) -> t.Any:
    for p in path:
        root = root[p]
    return root


def _set(root: t.Any, path: Path, value: t.Any) -> t.Any:
    if not path:
        return value
    parent = _get(root, path[:-1])
    parent[path[-1]] = value
    return root


class Shrinker:
    def __init__(
        self,
        test: t.Callable[[dict], bool],
        max_execs: int = 3000,
        max_seconds: float = 30.0,
        frozen: t.Collection[str] = ("scenario", "kind"),
    ) -> None:
        self.test = test
        self.max_execs = max_execs
        self.deadline = time.monotonic() + max_seconds
        self.execs = 0
        self.frozen = set(frozen)

    def _ok(self, cand: dict) -> bool:
        if self.execs >= self.max_execs or time.monotonic() > self.deadline:
            return False
        self.execs += 1
        try:
            return bool(self.test(cand))
        except Exception:
            return False

    def _budget(self) -> bool:
        return self.execs < self.max_execs and time.monotonic() <= self.deadline

    def shrink(self, case: dict) -> dict:
        best = copy.deepcopy(case)
        improved = True
        rounds = 0
        while improved and self._budget() and rounds < 12:
            improved = False
            rounds += 1
            for pass_ in (self._pass_lists, self._pass_scalars, self._pass_strings):
                new = pass_(best)
                if new is not None:
                    best = new
                    improved = True
        return best

    # -- passes ---------------------------------------------------------
    def _paths(self, case: dict, typ: type | tuple) -> list[Path]:
        out = []
        for path, node in _walk(case):
            if path and path[-1] in self.frozen:
                continue
            if isinstance(node, typ) and not (typ is int and isinstance(node, bool)):
                out.append(path)
        return out

    def _pass_lists(self, case: dict) -> dict | None:
        changed = False
        cur = case
        # longer paths first would be invalidated by parent edits; re-collect after each success
        paths = self._paths(cur, list)
        # try emptying / halving big lists first (outermost first)
        for path in paths:
            if not self._budget():
                break
            try:
                lst = _get(cur, path)
            except (KeyError, IndexError, TypeError):
                continue
            if not isinstance(lst, list) or not lst:
                continue
            size = len(lst)
            while size >= 1 and self._budget():
                i = 0
                while i < len(lst) and self._budget():
                    cand = copy.deepcopy(cur)
                    cl = _get(cand, path)
                    del cl[i : i + size]
                    if self._ok(cand):
                        cur = cand
                        lst = _get(cur, path)
                        changed = True
                    else:
                        i += size
                size = min(size // 2, len(lst))
        return cur if changed else None

    def _pass_scalars(self, case: dict) -> dict | None:
        changed = False
        cur = case
        for path in self._paths(cur, (int, bool, float)):
            if not self._budget():
                break
            try:
                v = _get(cur, path)
            except (KeyError, IndexError, TypeError):
                continue
            if isinstance(v, bool):
                if v:
                    cand = copy.deepcopy(cur)
                    _set(cand, path, False)
                    if self._ok(cand):
                        cur = cand
                        changed = True
                continue
            if isinstance(v, float):
                for target in (0.0, float(int(v))):
                    if v != target:
                        cand = copy.deepcopy(cur)
                        _set(cand, path, target)
                        if self._ok(cand):
                            cur = cand
                            changed = True
                            break
                continue
            if not isinstance(v, int) or v == 0:
                continue
            for target in (0, 1, v // 2, v - 1) if v > 0 else (0, -(-v // 2), v + 1):
                if target == v or (v > 0 and target >= v) or (v < 0 and target <= v):
                    continue
                cand = copy.deepcopy(cur)
                _set(cand, path, target)
                if self._ok(cand):
                    cur = cand
                    changed = True
                    break
        return cur if changed else None

    def _pass_strings(self, case: dict) -> dict | None:
        changed = False
        cur = case
        for path in self._paths(cur, str):
            if not self._budget():
                break
            try:
                s = _get(cur, path)
            except (KeyError, IndexError, TypeError):
                continue
            if not isinstance(s, str) or not s:
                continue
            # delete spans
            size = len(s)
            while size >= 1 and self._budget():
                i = 0
                while i < len(s) and self._budget():
                    ns = s[:i] + s[i + size :]
                    cand = copy.deepcopy(cur)
                    _set(cand, path, ns)
                    if self._ok(cand):
                        cur = cand
                        s = ns
                        changed = True
                    else:
                        i += size
                if size == 1:
                    break
                size //= 2
            # simplify characters
            if len(s) <= 64:
                for i, ch in enumerate(s):
                    if ch == "a" or not self._budget():
                        continue
                    ns = s[:i] + "a" + s[i + 1 :]
                    cand = copy.deepcopy(cur)
                    _set(cand, path, ns)
                    if self._ok(cand):
                        cur = cand
                        s = ns
                        changed = True
        return cur if changed else None
