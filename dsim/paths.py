"""Locate the werkzeug sources under test and put them first on sys.path.

``VERIF_REPO_SRC`` lets the sensitivity suite point a check at a scratch copy
of ``/repo/src`` with a mutant applied; the default is the working tree.
"""
import os
import sys

VERIF_ROOT = os.path.dirname(os.path.dirname(os.path.abspath(__file__)))
REPO_SRC = os.environ.get("VERIF_REPO_SRC") or "/repo/src"

if REPO_SRC in sys.path:
    sys.path.remove(REPO_SRC)
sys.path.insert(0, REPO_SRC)
if VERIF_ROOT not in sys.path:
    sys.path.insert(1, VERIF_ROOT)


def assert_werkzeug_location() -> str:
    import werkzeug

    here = os.path.realpath(os.path.dirname(werkzeug.__file__))
    want = os.path.realpath(os.path.join(REPO_SRC, "werkzeug"))
    if here != want:
        raise RuntimeError(f"werkzeug imported from {here}, expected {want}")
    return here
