"""Simulated byte streams: the server's input stream and response body files.

Every call asks the schedule tape how many bytes to hand out (0 = as many as
asked for), and consults the fault plan (raise OSError at call *i*).
"""
from __future__ import annotations

import io
import typing as t

from .core import SimHang
from .core import Tape


#: the I/O failures a server's input stream can produce (all are OSError)
ERRORS = {"oserror": OSError, "timeout": TimeoutError, "reset": ConnectionResetError, "broken_pipe": BrokenPipeError}


class SimStream:
    """A WSGI-server-like input stream with only ``read`` (and optionally
    ``readline``).  ``SimStreamInto`` adds ``readinto``."""

    def __init__(
        self,
        data: bytes,
        tape: Tape | None = None,
        *,
        fail_at: t.Collection[int] = (),
        max_read: int = 0,
        hang_calls: int | None = None,
        error: type[BaseException] | str = OSError,
    ) -> None:
        self.data = bytes(data)
        self.pos = 0
        self.tape = tape or Tape()
        self.fail_at = set(fail_at)
        self.max_read = max_read
        self.calls = 0
        self.eof_calls = 0
        self.largest_request = 0
        self.faults_fired = 0
        self.short_reads = 0
        self.hang_calls = hang_calls if hang_calls is not None else 4 * len(self.data) + 200
        self.error = error
        self.log: list[tuple[str, int, int]] = []

    # -- accounting --------------------------------------------------------
    @property
    def bytes_out(self) -> int:
        return self.pos

    def _call(self, kind: str, want: int) -> int:
        """Common path: returns how many bytes to deliver."""
        idx = self.calls
        self.calls += 1
        if self.calls > self.hang_calls:
            raise SimHang(f"{self.calls} calls on the underlying stream for {len(self.data)} bytes")
        if idx in self.fail_at:
            self.faults_fired += 1
            self.log.append((kind + "!err", want, 0))
            raise ERRORS.get(self.error, self.error)("simulated I/O error")
        avail = len(self.data) - self.pos
        if want is None or want < 0:
            n = avail
        else:
            self.largest_request = max(self.largest_request, want)
            n = min(want, avail)
        unbounded = want is None or want < 0  # read() / read(-1) means "until EOF"
        if self.max_read and n > self.max_read and not unbounded:
            n = self.max_read
        if n > 1 and not unbounded:
            k = self.tape.draw(n)
            if k:
                n = k
                self.short_reads += 1
        if avail == 0:
            self.eof_calls += 1
        self.log.append((kind, -1 if want is None else want, n))
        return n

    def read(self, size: int | None = -1) -> bytes:
        n = self._call("read", -1 if size is None else size)
        out = self.data[self.pos : self.pos + n]
        self.pos += n
        return out

    def readline(self, size: int | None = -1) -> bytes:
        # up to and including the next LF, subject to size and the tape
        avail = self.data[self.pos :]
        nl = avail.find(b"\n")
        want = len(avail) if nl < 0 else nl + 1
        if size is not None and size >= 0:
            want = min(want, size)
        n = self._call("readline", want)
        out = self.data[self.pos : self.pos + n]
        self.pos += n
        return out

    def close(self) -> None:
        pass


class SimStreamInto(SimStream):
    def readinto(self, b) -> int:
        mv = memoryview(b).cast("B")
        n = self._call("readinto", len(mv))
        mv[:n] = self.data[self.pos : self.pos + n]
        self.pos += n
        return n


class SimRaw(io.RawIOBase):
    """RawIOBase adapter over a SimStream, for wrapping in io.BufferedReader."""

    def __init__(self, sim: SimStreamInto) -> None:
        self.sim = sim

    def readable(self) -> bool:
        return True

    def readinto(self, b) -> int:
        return self.sim.readinto(b)


class SimFile:
    """A response-body file: ``read(n)`` with tape-chosen short reads, optional
    seek/tell, a counting ``close``."""

    def __init__(self, data: bytes, tape: Tape | None = None, seekable: bool = True) -> None:
        self._data = bytes(data)
        self._pos = 0
        self._tape = tape or Tape()
        self.close_calls = 0
        self.read_calls = 0
        if seekable:
            self.seek = self._seek  # type: ignore[assignment]
            self.tell = self._tell  # type: ignore[assignment]
            self.seekable = lambda: True  # type: ignore[assignment]

    def read(self, n: int = -1) -> bytes:
        self.read_calls += 1
        avail = len(self._data) - self._pos
        if n is None or n < 0:
            n = avail
        n = min(n, avail)
        if n > 1:
            k = self._tape.draw(n)
            if k:
                n = k
        out = self._data[self._pos : self._pos + n]
        self._pos += n
        return out

    def _seek(self, off: int, whence: int = 0) -> int:
        if whence == 0:
            self._pos = off
        elif whence == 1:
            self._pos += off
        else:
            self._pos = len(self._data) + off
        self._pos = max(0, min(self._pos, len(self._data)))
        return self._pos

    def _tell(self) -> int:
        return self._pos

    def close(self) -> None:
        self.close_calls += 1
