"""Simulated wall clock for code that reads ``datetime.now()``.

``FakeDateTime`` is a subclass of the real class whose ``now`` / ``utcnow``
return the simulator's current instant; ``patched`` rebinds the name
``datetime`` in the modules under test for the duration of one case, so every
clock read of those modules is decided by the case and not by the host."""
from __future__ import annotations

import contextlib
import datetime as dt
import importlib
import typing as t


def make_fake_datetime(get_now: t.Callable[[], dt.datetime]):
    class Meta(type(dt.datetime)):
        # real datetime objects must still pass ``isinstance(value, datetime)`` inside the module under test
        def __instancecheck__(cls, obj):
            return isinstance(obj, dt.datetime)

    class FakeDateTime(dt.datetime, metaclass=Meta):
        reads = 0

        @classmethod
        def now(cls, tz=None):
            FakeDateTime.reads += 1
            now = get_now()
            return now.astimezone(tz) if tz is not None else now.replace(tzinfo=None)

        @classmethod
        def utcnow(cls):
            FakeDateTime.reads += 1
            return get_now().astimezone(dt.timezone.utc).replace(tzinfo=None)

    return FakeDateTime


@contextlib.contextmanager
def patched(get_now: t.Callable[[], dt.datetime], modules: t.Iterable[str]):
    fake = make_fake_datetime(get_now)
    saved = []
    for name in modules:
        mod = importlib.import_module(name)
        if isinstance(getattr(mod, "datetime", None), type):
            saved.append((mod, mod.datetime))
            mod.datetime = fake
    try:
        yield fake
    finally:
        for mod, real in saved:
            mod.datetime = real
