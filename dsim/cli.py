"""Command line: ./check <ID> quick|thorough · replay <file> · selftest · list"""
from __future__ import annotations

import json
import os
import sys
import time
import typing as t

from . import paths
from .core import HarnessError
from .core import Scenario
from . import runner

VERIF = paths.VERIF_ROOT
EVIDENCE_DIR = os.environ.get("VERIF_EVIDENCE_DIR") or os.path.join(VERIF, "evidence")
REPLAY_DIR = os.environ.get("VERIF_REPLAY_DIR") or os.path.join(VERIF, "replays")
FINDINGS_FILE = os.path.join(VERIF, "known_findings.json")


def load_registry() -> dict[str, list[Scenario]]:
    from scenarios import REGISTRY

    return REGISTRY


def all_scenarios() -> dict[str, Scenario]:
    out = {}
    for lst in load_registry().values():
        for s in lst:
            out[s.name] = s
    return out


def load_findings() -> dict:
    if not os.path.exists(FINDINGS_FILE):
        return {"open": [], "fixed": []}
    with open(FINDINGS_FILE) as f:
        return json.load(f)


def ensure_hashseed() -> None:
    if os.environ.get("PYTHONHASHSEED") != "0" and not os.environ.get("VERIF_KEEP_HASHSEED"):
        env = dict(os.environ)
        env["PYTHONHASHSEED"] = "0"
        os.execve(sys.executable, [sys.executable] + sys.argv, env)


def cmd_check(pid: str, tier: str) -> int:
    reg = load_registry()
    if pid not in reg:
        print(f"unknown property {pid}; known: {sorted(reg)}")
        return 2
    paths.assert_werkzeug_location()
    try:
        seed = int(os.environ.get("VERIF_SEED", "0") or 0)
    except ValueError:
        seed = 0
    scale = float(os.environ.get("VERIF_SCALE", "1") or 1)
    scenarios = reg[pid]
    for f in load_findings().get("open", []):
        runner.KNOWN_CLASSES.update(f.get("classes") or [f["class"]])
    t0 = time.monotonic()
    print(f"[{pid}] tier={tier} VERIF_SEED={seed} src={paths.REPO_SRC} workers={runner.n_workers()}", flush=True)
    try:
        results = runner.run_scenarios(scenarios, seed, tier, scale)
    except HarnessError as e:
        print(f"HARNESS-ERROR property={pid} {e}")
        return 2
    harness = [(r.scn.name, h) for r in results for h in r.harness]
    if harness:
        for name, (idx, tb) in harness[:3]:
            print(f"HARNESS-ERROR property={pid} scenario={name} case={idx}\n{tb}")
        return 2

    # determinism self-check: re-execute recorded cases in the parent, reversed order
    det_checked = 0
    det_bad = []
    for r in results:
        for idx, digest in list(reversed(r.digests))[:40]:
            case = r.scn.make_case(seed, idx, tier)
            out = runner.run_case(r.scn, case)
            det_checked += 1
            if out.digest != digest:
                det_bad.append((r.scn.name, idx))
    if det_bad:
        print(f"HARNESS-ERROR property={pid} nondeterministic re-execution of {det_bad[:5]}")
        return 2

    findings = load_findings()
    open_f = [f for f in findings.get("open", []) if f["property"] == pid]
    known_classes = {}
    for f in open_f:
        for c in f.get("classes") or [f["class"]]:
            known_classes[c] = f
    scn_by_name = {s.name: s for s in scenarios}
    exit_code = 0
    n_viol = 0
    known_hits: dict[str, int] = {}

    # known findings: each listed one is replayed from its committed file
    for f in open_f:
        path = os.path.join(VERIF, f["replay"])
        status = "replay file missing"
        if os.path.exists(path):
            viols, _, _ = runner.replay_file(path, scn_by_name)
            fcls = f.get("classes") or [f["class"]]
            status = "reproduced from " + f["replay"] if any(c in fcls for c, _ in viols) else "NOT reproduced by " + f["replay"]
        print(f"KNOWN-FINDING: property={pid} {f['what']} [class {(f.get('classes') or [f['class']])[0]}; {status}]")

    violations_out = []
    # regression replays of repaired defects: a fixed entry suppresses nothing
    regress_run = 0
    for f in findings.get("fixed", []):
        if f.get("property") != pid or not f.get("regression_replay"):
            continue
        path = os.path.join(VERIF, f["regression_replay"])
        if not os.path.exists(path):
            continue
        viols, _, doc = runner.replay_file(path, scn_by_name)
        regress_run += 1
        viols = [v for v in viols if v[0] not in runner.KNOWN_CLASSES]
        if viols:
            n_viol += 1
            exit_code = 1
            print(f"violation class={viols[0][0]} (regression of a repaired defect): {viols[0][1]}")
            print(f"VIOLATION property={pid} replay={path}", flush=True)
            violations_out.append({"class": viols[0][0], "replay": path, "message": viols[0][1], "regression": True})
    minimised = 0
    unreproduced: list[str] = []
    skipped_classes: list[str] = []
    for r in results:
        for cls in sorted(r.viol):
            idx, cnt, msg = r.viol[cls]
            if cls in known_classes:
                known_hits[cls] = known_hits.get(cls, 0) + cnt
                continue
            n_viol += 1
            if len(violations_out) >= 12:
                # many classes nearly always share few causes: a dozen minimised replays are enough to act on
                skipped_classes.append(cls)
                exit_code = 1
                continue
            scn = r.scn
            case = scn.make_case(seed, idx, tier)
            got = runner.violation_classes(scn, case)
            if cls not in got:
                # seen in a pool worker, not here: the outcome depended on earlier runs in that worker.  Only a case that
                # fails on its own in a fresh interpreter can be reported.
                found = None
                for alt in [idx] + [i for i in r.viol_more.get(cls, []) if i != idx]:
                    alt_case = scn.make_case(seed, alt, tier)
                    alt_path = runner.write_replay(scn, seed, alt, cls, msg, alt_case, alt_case, REPLAY_DIR)
                    rc2, out2 = runner.fresh_replay(alt_path)
                    if rc2 == 1 and f"class={cls}" in out2:
                        found = (alt, alt_path)
                        break
                    os.unlink(alt_path)
                if found is None:
                    unreproduced.append(cls)
                    print(f"UNREPRODUCED property={pid} class={cls} case={idx}: seen in a pool worker but not when run on its own (got {got}) - state leaks between runs in one process")
                    continue
                print(f"violation class={cls} cases={cnt} first_case={found[0]} minimised_in=0(unminimised:outcome_depends_on_process_state)_execs: {msg}")
                print(f"VIOLATION property={pid} replay={found[1]}", flush=True)
                violations_out.append({"class": cls, "cases": cnt, "first_case": found[0], "replay": found[1], "message": msg})
                exit_code = 1
                continue
            budget = (3000, 30.0) if tier == "quick" else (6000, 60.0)
            if minimised >= 4:
                budget = (300, 3.0)  # many classes usually share one cause: spend the budget on the first few
            minimised += 1
            small, execs = runner.minimise(scn, case, cls, *budget)
            path = runner.write_replay(scn, seed, idx, cls, msg, small, case, REPLAY_DIR)
            rc, out_text = runner.fresh_replay(path)
            if rc != 1 or f"class={cls}" not in out_text:
                # One run must be a pure function of its case.  A violation seen in the pool that a fresh interpreter does not
                # show means state survived from an earlier run in the same process (a cache or a module-level object in the
                # code under test).  Look for a case of the class that fails on its own, and report that one unminimised.
                found = None
                for alt in [idx] + [i for i in r.viol_more.get(cls, []) if i != idx]:
                    alt_case = scn.make_case(seed, alt, tier)
                    alt_path = runner.write_replay(scn, seed, alt, cls, msg, alt_case, alt_case, REPLAY_DIR)
                    rc2, out2 = runner.fresh_replay(alt_path)
                    if rc2 == 1 and f"class={cls}" in out2:
                        found = (alt, alt_path)
                        break
                if found is None:
                    unreproduced.append(cls)
                    print(f"UNREPRODUCED property={pid} class={cls} case={idx}: seen in this process but not in a fresh interpreter (nor were {len(r.viol_more.get(cls, [])) + 1} unminimised cases of the class) - state leaks between runs in one process")
                    continue
                idx, path = found
                execs = f"0(unminimised:in-process_minimisation_did_not_carry_over_to_a_fresh_interpreter)_after_{execs}"
            print(f"violation class={cls} cases={cnt} first_case={idx} minimised_in={execs}_execs: {msg}")
            print(f"VIOLATION property={pid} replay={path}", flush=True)
            violations_out.append({"class": cls, "cases": cnt, "first_case": idx, "replay": path, "message": msg})
            exit_code = 1

    wall = time.monotonic() - t0
    write_evidence(pid, tier, seed, results, wall, n_viol, det_checked, known_hits, violations_out, regress_run)
    tot = sum(r.n for r in results)
    print(
        f"[{pid}] {tot} cases, {sum(len(r.nontrivial) for r in results)} distinct non-trivial, "
        f"{n_viol} unknown violation classes, known-finding hits {known_hits or 0}, {wall:.1f}s"
    )
    for r in results:
        zero = [k for k, v in sorted(r.probes.items()) if v == 0]
        if zero:
            print(f"  warning: probes stuck at zero in {r.scn.name}: {zero}")
    if skipped_classes:
        print(f"  {len(skipped_classes)} further violation classes were not minimised (first: {skipped_classes[0]})")
    if unreproduced and exit_code == 0:
        # nothing that can be replayed, yet the pool saw violations: the runs were not independent of one another
        print(f"HARNESS-ERROR property={pid} {len(unreproduced)} violation classes were seen only under state left by earlier runs and none could be reproduced on its own")
        return 2
    return exit_code


def write_evidence(pid, tier, seed, results, wall, n_viol, det_checked, known_hits, violations_out, regress_run=0) -> None:
    os.makedirs(EVIDENCE_DIR, exist_ok=True)
    evaluations = sum(r.n for r in results)
    distinct_nt = sum(len(r.nontrivial) for r in results)
    per = {}
    samples = []
    faults: dict[str, int] = {}
    sim_time = 0.0
    for r in results:
        per[r.scn.name] = {
            "cases": r.n,
            "distinct_cases": len(r.keys),
            "distinct_nontrivial": len(r.nontrivial),
            "simulator_steps": r.steps,
            "simulated_seconds": round(r.sim_time, 3),
            "configurations": dict(sorted(r.configs.items())),
            "faults_fired": dict(sorted(r.faults.items())),
            "reach_probes": dict(sorted(r.probes.items())),
            "cpu_s": round(r.cpu, 2),
            "real_code": r.scn.real,
            "stubs": r.scn.stubs,
            "rule": r.scn.rule,
            "violation_classes": {c: v[1] for c, v in sorted(r.viol.items())},
        }
        for k, v in r.faults.items():
            faults[f"{r.scn.name}:{k}"] = v
        sim_time += r.sim_time
        samples.extend(r.samples[:2])
    doc = {
        "property_id": pid,
        "tier": tier,
        "seed": seed,
        "level": results[0].scn.level,
        "coverage": {
            "evaluations": evaluations,
            "distinct_nontrivial": distinct_nt,
            "rule": "cases are generated from splitmix64(VERIF_SEED, scenario, case index); a case = operations + configuration + "
            "fault plan + schedule tape; distinctness = hash of the scenario's interleaving/state key; non-trivial as stated per scenario: "
            + " | ".join(f"{r.scn.name}: {r.scn.rule}" for r in results),
            "samples": samples,
            "simulated_runs": evaluations,
            "runs_per_hour": int(evaluations / wall * 3600) if wall > 0 else 0,
            "seeds_per_hour": round(3600 / wall, 1) if wall > 0 else 0,
            "simulated_seconds": round(sim_time, 3),
            "simulator_steps": sum(r.steps for r in results),
            "faults_fired": dict(sorted(faults.items())),
            "per_scenario": per,
            "determinism_selfcheck": {"cases_reexecuted": det_checked, "digest_mismatches": 0},
            "known_finding_hits": known_hits,
            "regression_replays_run": regress_run,
            "violations_reported": violations_out,
            "workers": runner.n_workers(),
            "source_under_test": paths.REPO_SRC,
        },
        "assumptions": [
            "sampling, not enumeration: a clean batch is evidence, not proof",
            "the stdlib (io, http.server, email, contextvars, asyncio.Task, re) runs as real code and is trusted",
            "reference models and the harness's own renderers/parsers are trusted (kept small; see DESIGN.md section 7)",
        ],
        "wall_s": round(wall, 2),
        "violations": n_viol,
    }
    with open(os.path.join(EVIDENCE_DIR, f"{pid}.json"), "w") as f:
        json.dump(doc, f, indent=1, sort_keys=True)
        f.write("\n")


def cmd_replay(path: str) -> int:
    scns = all_scenarios()
    viols, digest, doc = runner.replay_file(path, scns)
    want = doc.get("violation_class")
    print(f"replay {path}: scenario={doc['scenario']} digest={digest} (recorded {doc.get('digest')})")
    for c, m in viols:
        print(f"  violation class={c}: {m}")
    if any(c == want for c, _ in viols) or (want is None and viols):
        print(f"VIOLATION property={doc['property']} replay={path}")
        return 1
    print("no violation reproduced")
    return 0


def cmd_case(pid: str, scenario: str, index: int, tier: str) -> int:
    """Debug helper: print and run one generated case."""
    scn = all_scenarios()[scenario]
    seed = int(os.environ.get("VERIF_SEED", "0") or 0)
    case = scn.make_case(seed, index, tier)
    out = runner.run_case(scn, case)
    print(json.dumps(case, indent=1))
    print("\n".join(out.trace))
    print(out.violations, out.digest)
    return 0


def main(argv: list[str]) -> int:
    if len(argv) < 2:
        print(__doc__)
        return 2
    cmd = argv[1]
    if cmd == "replay":
        ensure_hashseed()
        return cmd_replay(argv[2])
    if cmd == "selftest":
        from . import selftest

        return selftest.main(argv[2:])
    if cmd == "sensitivity":
        from . import sensitivity

        return sensitivity.main(argv[2:])
    if cmd == "benign":
        from . import sensitivity

        return sensitivity.main_benign(argv[2:])
    if cmd == "case":
        ensure_hashseed()
        return cmd_case(argv[2], argv[3], int(argv[4]), argv[5] if len(argv) > 5 else "quick")
    if cmd == "list":
        for pid, lst in sorted(load_registry().items()):
            print(pid, [s.name for s in lst])
        return 0
    ensure_hashseed()
    tier = argv[2] if len(argv) > 2 else os.environ.get("VERIF_TIER", "quick")
    if tier not in ("quick", "thorough"):
        print("tier must be quick or thorough")
        return 2
    return cmd_check(cmd, tier)
