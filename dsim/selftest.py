"""Determinism self-test.

For every scenario: execute the first N cases twice in one process, then again
in fresh interpreters under PYTHONHASHSEED 0 / 1 / random and with 1, 4 and 16
workers; all per-case trace digests must be identical.
"""
from __future__ import annotations

import hashlib
import json
import os
import subprocess
import sys

from . import paths
from . import runner

VERIF = paths.VERIF_ROOT


def digests(scn, seed: int, n: int, tier: str, order=None) -> dict[int, str]:
    out = {}
    for idx in order or range(n):
        case = scn.make_case(seed, idx, tier)
        o = runner.run_case(scn, case)
        out[idx] = o.digest + "|" + ",".join(c for c, _ in o.violations)
    return out


def _child(args: list[str]) -> int:
    # child mode: print combined digest for scenario
    name, seed, n, tier, workers = args[0], int(args[1]), int(args[2]), args[3], int(args[4])
    from .cli import all_scenarios

    scn = all_scenarios()[name]
    if workers <= 1:
        d = digests(scn, seed, n, tier)
    else:
        import concurrent.futures as cf
        import multiprocessing

        runner._SCENARIOS[scn.name] = scn
        step = max(1, n // (workers * 2))
        d = {}
        with cf.ProcessPoolExecutor(workers, mp_context=multiprocessing.get_context("fork")) as pool:
            futs = [pool.submit(_range_digests, name, seed, tier, a, min(n, a + step)) for a in range(0, n, step)]
            for f in futs:
                d.update(f.result(timeout=1800))
    h = hashlib.sha256(json.dumps(sorted(d.items())).encode()).hexdigest()
    print("DIGEST", h)
    return 0


def _range_digests(name, seed, tier, a, b):
    scn = runner._SCENARIOS[name]
    return digests(scn, seed, 0, tier, order=range(a, b))


def main(argv: list[str]) -> int:
    if argv and argv[0] == "--child":
        return _child(argv[1:])
    from .cli import load_registry

    n = int(os.environ.get("VERIF_SELFTEST_N", "2000"))
    seed = int(os.environ.get("VERIF_SEED", "0") or 0)
    tier = "quick"
    reg = load_registry()
    pids = [a for a in argv if a in reg] or sorted(reg)
    bad = 0
    for pid in pids:
        for scn in reg[pid]:
            nn = min(n, scn.cases["quick"])
            a = digests(scn, seed, nn, tier)
            b = digests(scn, seed, nn, tier, order=list(reversed(range(nn))))
            mism = [i for i in a if a[i] != b[i]]
            ref = hashlib.sha256(json.dumps(sorted(a.items())).encode()).hexdigest()
            results = []
            for hs, workers in (("0", 1), ("1", 4), ("random", 16), ("12345", 3)):
                env = dict(os.environ)
                env["PYTHONHASHSEED"] = hs
                env["VERIF_KEEP_HASHSEED"] = "1"
                p = subprocess.run(
                    [sys.executable, os.path.join(VERIF, "check"), "selftest", "--child", scn.name, str(seed), str(nn), tier, str(workers)],
                    capture_output=True, text=True, env=env, timeout=3600,
                )
                got = [ln.split()[1] for ln in p.stdout.splitlines() if ln.startswith("DIGEST")]
                results.append((hs, workers, got[0] if got else "ERROR:" + p.stderr[-300:]))
            ok = not mism and all(r[2] == ref for r in results)
            print(f"{'ok ' if ok else 'BAD'} {pid} {scn.name}: {nn} cases x (2 in-process orders + 4 fresh interpreters) in-process mismatches={len(mism)} " + " ".join(f"hs={h}/w={w}:{'same' if d == ref else d[:40]}" for h, w, d in results))
            if not ok:
                bad += 1
                if mism:
                    print("   first mismatching cases:", mism[:5])
    return 1 if bad else 0
