"""Sensitivity suite: every mutant must be caught by the check it targets.

``./check sensitivity [name-substring ...]`` copies ``/repo/src`` to a scratch
directory outside /repo and /verif, applies one patch from ``/verif/mutants``
(or reverts one ``fix:`` commit), runs the targeted property's quick check
against the copy (``VERIF_REPO_SRC``) with evidence and replays redirected to
the scratch directory, expects exit 1 with a VIOLATION line, and removes the
copy.  Patch files start with header lines ``# property: C09`` and an optional
``# note: ...``; seeded changes under ``/verif/seeded/<id>/patch.diff`` with a
``meta.json`` naming the property are picked up too.
"""
from __future__ import annotations

import json
import os
import shutil
import subprocess
import sys
import tempfile
import time

from . import paths

VERIF = paths.VERIF_ROOT


def discover() -> list[dict]:
    out = []
    mdir = os.path.join(VERIF, "mutants")
    if os.path.isdir(mdir):
        for fn in sorted(os.listdir(mdir)):
            if not fn.endswith(".patch"):
                continue
            path = os.path.join(mdir, fn)
            props = []
            with open(path) as f:
                for line in f:
                    if line.startswith("# property:"):
                        props = line.split(":", 1)[1].split()
                    if not line.startswith("#"):
                        break
            out.append({"name": "mutants/" + fn[:-6], "patch": path, "properties": props, "reverse": False})
    sdir = os.path.join(VERIF, "seeded")
    if os.path.isdir(sdir):
        for d in sorted(os.listdir(sdir)):
            meta = os.path.join(sdir, d, "meta.json")
            patch = os.path.join(sdir, d, "patch.diff")
            if os.path.exists(meta) and os.path.exists(patch):
                with open(meta) as f:
                    m = json.load(f)
                props = m.get("caught_by") or [m.get("property")]
                out.append({"name": "seeded/" + d, "patch": patch, "properties": props, "reverse": False})
    ff = os.path.join(VERIF, "known_findings.json")
    if os.path.exists(ff):
        with open(ff) as f:
            kf = json.load(f)
        for e in kf.get("fixed", []):
            if e.get("no_revert"):
                continue
            out.append({"name": "revert-fix/" + e["commit"], "commit": e["commit"], "properties": e.get("caught_by") or [e["property"]], "reverse": True})
    return out


def run_one(m: dict, tier: str = "quick") -> dict:
    scratch = tempfile.mkdtemp(prefix="verif-mut-")
    try:
        shutil.copytree("/repo/src", os.path.join(scratch, "src"), ignore=shutil.ignore_patterns("__pycache__"))
        if m.get("commit"):
            diff = subprocess.run(["git", "-C", "/repo", "show", "--format=", m["commit"], "--", "src"], capture_output=True, text=True, check=True).stdout
            p = subprocess.run(["patch", "-R", "-p1", "-s", "-d", scratch], input=diff, capture_output=True, text=True)
        else:
            with open(m["patch"]) as f:
                diff = f.read()
            p = subprocess.run(["patch", "-p1", "-s", "-d", scratch], input=diff, capture_output=True, text=True)
        if p.returncode != 0:
            return {"name": m["name"], "status": "PATCH-FAILED", "detail": (p.stdout + p.stderr)[-500:]}
        res = {"name": m["name"], "status": "SURVIVED", "caught_by": [], "detail": ""}
        for pid in m["properties"]:
            env = dict(os.environ)
            env.update(
                VERIF_REPO_SRC=os.path.join(scratch, "src"),
                VERIF_EVIDENCE_DIR=os.path.join(scratch, "evidence"),
                VERIF_REPLAY_DIR=os.path.join(scratch, "replays"),
                PYTHONHASHSEED="0",
                PYTHONDONTWRITEBYTECODE="1",
            )
            t0 = time.monotonic()
            r = subprocess.run([sys.executable, os.path.join(VERIF, "check"), pid, tier], capture_output=True, text=True, env=env, timeout=3600)
            dt = time.monotonic() - t0
            lines = [ln for ln in r.stdout.splitlines() if ln.startswith(("violation class", "VIOLATION", "HARNESS"))]
            if r.returncode == 1 and any(ln.startswith("VIOLATION") for ln in lines):
                res["status"] = "CAUGHT"
                res["caught_by"].append(pid)
                res["detail"] += f"{pid} ({dt:.0f}s): " + (lines[0][:200] if lines else "") + "\n"
            elif r.returncode not in (0, 1):
                res["status"] = "HARNESS-ERROR" if res["status"] != "CAUGHT" else res["status"]
                res["detail"] += f"{pid}: exit {r.returncode}: " + (r.stdout + r.stderr)[-800:] + "\n"
            else:
                res["detail"] += f"{pid} ({dt:.0f}s): not caught\n"
        return res
    finally:
        shutil.rmtree(scratch, ignore_errors=True)


def main_benign(argv: list[str]) -> int:
    """The reverse experiment: behaviour-preserving changes (refactorings, different buffer sizes and
    constants) must NOT raise an alarm.  ``./check benign [substr ...]``"""
    bdir = os.path.join(VERIF, "benign")
    ms = []
    for fn in sorted(os.listdir(bdir)):
        if fn.endswith(".patch") and (not argv or any(a in fn for a in argv)):
            props = []
            with open(os.path.join(bdir, fn)) as f:
                for line in f:
                    if line.startswith("# property:"):
                        props = line.split(":", 1)[1].split()
            ms.append({"name": "benign/" + fn[:-6], "patch": os.path.join(bdir, fn), "properties": props, "reverse": False})
    bad = 0
    for m in ms:
        r = run_one(m, "quick")
        quiet = r["status"] == "SURVIVED"
        print(f"{'QUIET' if quiet else 'FALSE-ALARM' if r['status'] == 'CAUGHT' else r['status']:13s} {m['name']:50s} {','.join(m['properties'])}")
        if not quiet:
            bad += 1
            print("    " + r["detail"].replace("\n", "\n    "))
        sys.stdout.flush()
    print(f"{len(ms) - bad}/{len(ms)} quiet")
    return 0 if bad == 0 else 1


def main(argv: list[str]) -> int:
    tier = "quick"
    if argv and argv[0] in ("quick", "thorough"):
        tier = argv.pop(0)
    ms = discover()
    if argv:
        ms = [m for m in ms if any(a in m["name"] or a in m["properties"] for a in argv)]
    bad = 0
    rows = []
    full = not argv
    for m in ms:
        r = run_one(m, tier)
        print(f"{r['status']:13s} {r['name']:55s} {','.join(r.get('caught_by', []))}")
        if r["status"] != "CAUGHT":
            bad += 1
            print("    " + r["detail"].replace("\n", "\n    "))
        rows.append((m, r))
        sys.stdout.flush()
    print(f"{len(ms) - bad}/{len(ms)} caught")
    if full:
        write_table(rows, tier)
    elif os.environ.get("VERIF_SENS_MERGE") == "1":
        merge_table(rows)
    return 0 if bad == 0 else 1


def table_row(m, r) -> str:
    first = ""
    for ln in r.get("detail", "").splitlines():
        if "violation class=" in ln:
            first = ln.split("violation class=", 1)[1].split(" cases=", 1)[0]
            break
    return f"| `{m['name']}` | {', '.join(m['properties'])} | {r['status']} ({', '.join(r.get('caught_by', []))}) | `{first}` |"


def merge_table(rows) -> None:
    """Replace / add the rows of a partial run in the existing table (VERIF_SENS_MERGE=1), keeping the discover() order."""
    path = os.path.join(VERIF, "SENSITIVITY.md")
    with open(path) as f:
        lines = f.read().splitlines()
    existing = {}
    head = []
    for ln in lines:
        if ln.startswith("| `"):
            existing[ln.split("`")[1]] = ln
        elif not existing and not ln.endswith(" caught."):
            head.append(ln)
    for m, r in rows:
        existing[m["name"]] = table_row(m, r)
    order = [m["name"] for m in discover()]
    body = [existing[n] for n in order if n in existing]
    caught = sum(1 for ln in body if "| CAUGHT (" in ln)
    while head and not head[-1].strip():
        head.pop()
    with open(path, "w") as f:
        f.write("\n".join(head + body + ["", f"{caught}/{len(body)} caught."]) + "\n")


def write_table(rows, tier: str) -> None:
    """Record which check catches which change (DESIGN.md section 9.4)."""
    lines = [
        "# Sensitivity: which check catches which change",
        "",
        f"Generated by `./check sensitivity` ({tier} tier, VERIF_SEED={os.environ.get('VERIF_SEED', '0')}). Every change is applied to a scratch copy of `/repo/src`;",
        "the targeted property's check must exit 1 with a `VIOLATION` line. `mutants/` = hand-written mutants, `seeded/` = changes written by",
        "independent sub-agents that saw only the property text (each compiles and passes the unedited test suite), `revert-fix/` = one `fix:` commit reversed.",
        "",
        "| change | targets | result | first violation class reported |",
        "|---|---|---|---|",
    ]
    for m, r in rows:
        first = ""
        for ln in r.get("detail", "").splitlines():
            if "violation class=" in ln:
                first = ln.split("violation class=", 1)[1].split(" cases=", 1)[0]
                break
        lines.append(f"| `{m['name']}` | {', '.join(m['properties'])} | {r['status']} ({', '.join(r.get('caught_by', []))}) | `{first}` |")
    caught = sum(1 for _, r in rows if r["status"] == "CAUGHT")
    lines += ["", f"{caught}/{len(rows)} caught."]
    with open(os.path.join(VERIF, "SENSITIVITY.md"), "w") as f:
        f.write("\n".join(lines) + "\n")
