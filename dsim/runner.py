"""Run the scenarios of one property over many seeded cases, on all cores.

Work is split by *case index* into fixed-size chunks; each chunk's summary is
merged in chunk order, so the set of executions and the merged result do not
depend on the number of workers.
"""
from __future__ import annotations

import concurrent.futures as cf
import faulthandler
import json
import multiprocessing
import os
import signal
import subprocess
import sys
import time
import traceback
import typing as t

from . import paths
from .core import CaseTimeout
from .core import HarnessError
from .core import Outcome
from .core import Scenario
from .core import canonical
from .core import key_hash
from .shrink import Shrinker

VERIF = paths.VERIF_ROOT
MAX_SAMPLES = 3


def _alarm(signum, frame):  # pragma: no cover - only on hangs
    raise CaseTimeout()


_caches: list = []
_caches_seen_modules = -1


def reset_process_state() -> None:
    """One run must not depend on the runs before it in the same process.  Memoising caches in the code under test
    (``functools.lru_cache`` / ``cache`` on module-level functions and on methods) are process-wide state of exactly that
    kind: they are emptied before every case, so a case starts like a fresh process.  State *inside* a case is
    untouched - a cache that goes stale during one history still shows."""
    global _caches_seen_modules
    import sys

    if len(sys.modules) != _caches_seen_modules:
        _caches_seen_modules = len(sys.modules)
        found = []
        for name, mod in list(sys.modules.items()):
            if mod is None or not (name == "werkzeug" or name.startswith("werkzeug.")):
                continue
            for obj in list(vars(mod).values()):
                if callable(getattr(obj, "cache_clear", None)):
                    found.append(obj)
                elif isinstance(obj, type) and getattr(obj, "__module__", "") == name:
                    for member in list(vars(obj).values()):
                        member = getattr(member, "__func__", member)
                        if callable(getattr(member, "cache_clear", None)):
                            found.append(member)
        _caches[:] = found
    for f in _caches:
        try:
            f.cache_clear()
        except Exception:  # noqa: BLE001
            pass


def run_case(scn: Scenario, case: dict) -> Outcome:
    """Execute one case under the per-case CPU budget.  Exceptions escaping
    ``execute`` are harness errors, except the CPU alarm, which is the
    non-termination bound and becomes a violation."""
    reset_process_state()
    signal.signal(signal.SIGVTALRM, _alarm)
    signal.setitimer(signal.ITIMER_VIRTUAL, scn.cpu_limit)
    try:
        out = scn.execute(case)
    except CaseTimeout:
        out = Outcome()
        out.violate(f"{scn.pid}/{scn.name}/non-termination", f"case exceeded {scn.cpu_limit}s of CPU time")
        out.digest = "timeout"
    finally:
        signal.setitimer(signal.ITIMER_VIRTUAL, 0)
    return out


_SCENARIOS: dict[str, Scenario] = {}
#: violation classes of recorded known findings (set by the CLI before the pool forks)
KNOWN_CLASSES: set[str] = set()


def _chunk_worker(args: tuple) -> dict:
    scn_name, verif_seed, tier, start, stop = args
    faulthandler.dump_traceback_later(1500, exit=True)
    scn = _SCENARIOS[scn_name]
    summ: dict[str, t.Any] = {
        "scenario": scn_name,
        "start": start,
        "n": 0,
        "nontrivial_keys": set(),
        "keys": set(),
        "probes": {},
        "faults": {},
        "configs": {},
        "sim_time": 0.0,
        "steps": 0,
        "viol": {},  # class -> [first_index, count, message]
        "viol_more": {},  # class -> a few further case indices (fallback when a replay does not carry over to a fresh interpreter)
        "harness": [],
        "digests": [],
        "samples": [],
        "cpu": 0.0,
    }
    t0 = time.process_time()
    for idx in range(start, stop):
        try:
            case = scn.make_case(verif_seed, idx, tier)
            out = run_case(scn, case)
        except BaseException as e:  # noqa: BLE001
            if isinstance(e, (KeyboardInterrupt, SystemExit)):
                raise
            summ["harness"].append((idx, "".join(traceback.format_exception(e))[-3000:]))
            if len(summ["harness"]) > 3:
                break
            continue
        summ["n"] += 1
        kh = key_hash(out.key or canonical(case))
        summ["keys"].add(kh)
        if out.nontrivial:
            summ["nontrivial_keys"].add(kh)
        for k, v in out.probes.items():
            summ["probes"][k] = summ["probes"].get(k, 0) + v
        for k, v in out.faults.items():
            summ["faults"][k] = summ["faults"].get(k, 0) + v
        if out.config:
            summ["configs"][out.config] = summ["configs"].get(out.config, 0) + 1
        summ["sim_time"] += out.sim_time
        summ["steps"] += out.steps
        if idx - start < 4:
            summ["digests"].append((idx, out.digest))
        if idx < MAX_SAMPLES:
            summ["samples"].append({"case_index": idx, "case": case, "trace_head": out.trace[:12], "digest": out.digest})
        # one class per case: the first that is not a recorded known finding, else the first
        pick = [v for v in out.violations if v[0] not in KNOWN_CLASSES][:1] or out.violations[:1]
        for cls, msg in pick:
            ent = summ["viol"].get(cls)
            if ent is None:
                summ["viol"][cls] = [idx, 1, msg]
            else:
                ent[1] += 1
                more = summ["viol_more"].setdefault(cls, [])
                if len(more) < 4:
                    more.append(idx)
    summ["cpu"] = time.process_time() - t0
    faulthandler.cancel_dump_traceback_later()
    return summ


class ScenarioResult:
    def __init__(self, scn: Scenario) -> None:
        self.scn = scn
        self.n = 0
        self.keys: set[int] = set()
        self.nontrivial: set[int] = set()
        self.probes: dict[str, int] = {}
        self.faults: dict[str, int] = {}
        self.configs: dict[str, int] = {}
        self.sim_time = 0.0
        self.steps = 0
        self.viol: dict[str, list] = {}
        self.viol_more: dict[str, list] = {}
        self.harness: list = []
        self.digests: list = []
        self.samples: list = []
        self.cpu = 0.0
        self.wall = 0.0

    def merge(self, s: dict) -> None:
        self.n += s["n"]
        self.keys |= s["keys"]
        self.nontrivial |= s["nontrivial_keys"]
        for name in ("probes", "faults", "configs"):
            d = getattr(self, name)
            for k, v in s[name].items():
                d[k] = d.get(k, 0) + v
        self.sim_time += s["sim_time"]
        self.steps += s["steps"]
        for cls, (idx, cnt, msg) in s["viol"].items():
            more = self.viol_more.setdefault(cls, [])
            ent = self.viol.get(cls)
            if ent is None:
                self.viol[cls] = [idx, cnt, msg]
            else:
                more.append(max(idx, ent[0]))
                if idx < ent[0]:
                    ent[0] = idx
                    ent[2] = msg
                ent[1] += cnt
            more.extend(s.get("viol_more", {}).get(cls, []))
            self.viol_more[cls] = sorted(set(more))[:16]
        self.harness.extend(s["harness"])
        self.digests.extend(s["digests"])
        self.samples.extend(s["samples"])
        self.cpu += s["cpu"]


def n_workers() -> int:
    try:
        return max(1, int(os.environ.get("VERIF_WORKERS", "0"))) if os.environ.get("VERIF_WORKERS") else (os.cpu_count() or 4)
    except ValueError:
        return os.cpu_count() or 4


def run_scenarios(scenarios: list[Scenario], verif_seed: int, tier: str, count_scale: float = 1.0) -> list[ScenarioResult]:
    """Run all scenarios' cases on a fork-based process pool."""
    for s in scenarios:
        _SCENARIOS[s.name] = s
    jobs = []
    results = {s.name: ScenarioResult(s) for s in scenarios}
    for s in scenarios:
        n = max(1, int(s.cases[tier] * count_scale))
        for start in range(0, n, s.chunk):
            jobs.append((s.name, verif_seed, tier, start, min(n, start + s.chunk)))
    t0 = time.monotonic()
    workers = n_workers()
    ctx = multiprocessing.get_context("fork")
    summaries = []
    if workers == 1 or len(jobs) == 1:
        for j in jobs:
            summaries.append(_chunk_worker(j))
    else:
        with cf.ProcessPoolExecutor(max_workers=workers, mp_context=ctx) as pool:
            futs = [pool.submit(_chunk_worker, j) for j in jobs]
            for f in futs:
                try:
                    summaries.append(f.result(timeout=3600))
                except Exception as e:  # worker died or timed out
                    raise HarnessError(f"worker failed: {e!r}") from e
    wall = time.monotonic() - t0
    summaries.sort(key=lambda s: (s["scenario"], s["start"]))
    for s in summaries:
        results[s["scenario"]].merge(s)
    for r in results.values():
        r.wall = wall
    return [results[s.name] for s in scenarios]


# ---------------------------------------------------------------------------
# violations: confirm, minimise, write replay, replay in a fresh interpreter


def violation_classes(scn: Scenario, case: dict) -> list[str]:
    out = run_case(scn, case)
    cls = [c for c, _ in out.violations]
    return [c for c in cls if c not in KNOWN_CLASSES] + [c for c in cls if c in KNOWN_CLASSES]


def minimise(scn: Scenario, case: dict, cls: str, max_execs: int = 3000, max_seconds: float = 30.0) -> tuple[dict, int]:
    def test(c: dict) -> bool:
        return cls in violation_classes(scn, c)

    # a sweep case names the failing schedule: continue with that explicit schedule
    first = run_case(scn, case)
    hint = first.extra.get("narrow")
    if hint is not None:
        try:
            narrowed = scn.narrow(case, hint)
            if test(narrowed):
                case = narrowed
        except Exception:  # noqa: BLE001
            pass

    sh = Shrinker(test, max_execs=max_execs, max_seconds=max_seconds)
    small = sh.shrink(case)
    return small, sh.execs


def write_replay(
    scn: Scenario,
    verif_seed: int,
    index: int,
    cls: str,
    msg: str,
    case: dict,
    original: dict,
    directory: str,
    tag: str = "",
) -> str:
    os.makedirs(directory, exist_ok=True)
    out = run_case(scn, case)
    doc = {
        "property": scn.pid,
        "scenario": scn.name,
        "verif_seed": verif_seed,
        "case_index": index,
        "violation_class": cls,
        "message": next((m for c, m in out.violations if c == cls), msg),
        "digest": out.digest,
        "case": case,
        "trace": out.trace[:200],
        "original_case": original,
    }
    safe = "".join(ch if ch.isalnum() or ch in "-_." else "_" for ch in cls)[:80]
    path = os.path.join(directory, f"{scn.pid}-{tag or verif_seed}-{index}-{safe}.json")
    with open(path, "w") as f:
        json.dump(doc, f, indent=1, sort_keys=True)
        f.write("\n")
    return path


def replay_file(path: str, scenarios: dict[str, Scenario]) -> tuple[list[tuple[str, str]], str, dict]:
    with open(path) as f:
        doc = json.load(f)
    scn = scenarios[doc["scenario"]]
    out = run_case(scn, doc["case"])
    return out.violations, out.digest, doc


def fresh_replay(path: str) -> tuple[int, str]:
    """Replay in a fresh interpreter; returns (exit code, stdout)."""
    env = dict(os.environ)
    env["PYTHONHASHSEED"] = "0"
    p = subprocess.run(
        [sys.executable, os.path.join(VERIF, "check"), "replay", path],
        capture_output=True,
        text=True,
        env=env,
        timeout=600,
    )
    return p.returncode, p.stdout + p.stderr
