"""Baton-passing scheduler for real threads.

Exactly one actor (a real ``threading.Thread`` or the controller) holds the
baton at any time.  At a yield point the holder returns the baton and the
schedule tape picks who continues, so the interleaving is a pure function of
the tape.  Yield points are operation boundaries in the harness, simulated
``sleep`` calls and - optionally - every ``line`` event that ``sys.settrace``
delivers for frames of selected source files (line-level pre-emption).
"""
from __future__ import annotations

import sys
import threading
import typing as t

from .core import HarnessError
from .core import Tape

WAIT = 30.0  # wall-clock seconds before a stuck hand-over is reported as a harness error


class Baton:
    def __init__(self, tape: Tape, trace_suffixes: tuple[str, ...] = ()) -> None:
        self.tape = tape
        self.cond = threading.Condition()
        self.current: str | None = None
        self.actors: dict[str, threading.Thread | None] = {}
        self.state: dict[str, str] = {}  # key -> "runnable" | "blocked" | "done"
        self.errors: list[tuple[str, BaseException]] = []
        self.switches = 0
        self.yields = 0
        self.preempt_lines = 0
        self.trace_suffixes = trace_suffixes
        self.tracing: set[str] = set()  # actors for which line-level pre-emption is on right now
        self.order: list[str] = []

    # -- actors ----------------------------------------------------------
    def add_controller(self, key: str = "ctl") -> None:
        self.actors[key] = None
        self.state[key] = "runnable"
        self.order.append(key)
        self.current = key

    def spawn(self, key: str, fn: t.Callable[[], None], runner: t.Callable[[t.Callable[[], None]], None] | None = None) -> None:
        """Start a real thread for actor ``key``.  It does not run before it is
        handed the baton.  ``runner`` lets the caller start the body inside a
        copied ``contextvars.Context`` (``ctx.run``)."""

        def body() -> None:
            try:
                self._wait_for(key)
                if self.trace_suffixes:
                    sys.settrace(self._make_tracer(key))
                try:
                    fn()
                finally:
                    sys.settrace(None)
            except BaseException as e:  # noqa: BLE001
                self.errors.append((key, e))
            finally:
                self._finish(key)

        th = threading.Thread(target=(lambda: runner(body)) if runner else body, name=f"sim-{key}", daemon=True)
        self.actors[key] = th
        self.state[key] = "runnable"
        self.order.append(key)
        th.start()

    # -- baton -----------------------------------------------------------
    def _wait_for(self, key: str) -> None:
        with self.cond:
            ok = self.cond.wait_for(lambda: self.current == key, timeout=WAIT)
        if not ok:
            raise HarnessError(f"actor {key} never received the baton")

    def _hand(self, frm: str, to: str) -> None:
        if to == frm:
            return
        self.switches += 1
        with self.cond:
            self.current = to
            self.cond.notify_all()
            if self.state.get(frm) != "done":
                ok = self.cond.wait_for(lambda: self.current == frm, timeout=WAIT)
                if not ok:
                    raise HarnessError(f"actor {frm} did not get the baton back (current={self.current}, states={self.state})")

    def switch_to(self, frm: str, to: str) -> None:
        """Directed hand-over (controller stepping a worker, worker returning)."""
        if self.state.get(to) == "done":
            raise HarnessError(f"hand-over to finished actor {to}")
        self._hand(frm, to)

    def yield_any(self, frm: str) -> None:
        """Tape-chosen hand-over among runnable actors; 0 keeps the baton."""
        self.yields += 1
        cands = [frm] + [k for k in self.order if k != frm and self.state.get(k) == "runnable"]
        if len(cands) == 1:
            return
        to = cands[self.tape.draw(len(cands))]
        self._hand(frm, to)

    def block(self, key: str) -> None:
        self.state[key] = "blocked"

    def unblock(self, key: str) -> None:
        if self.state.get(key) == "blocked":
            self.state[key] = "runnable"

    def _finish(self, key: str) -> None:
        self.state[key] = "done"
        # pass the baton on: prefer the controller if it is waiting, else any runnable actor
        nxt = None
        for k in self.order:
            if k != key and self.state.get(k) == "runnable":
                nxt = k
                break
        with self.cond:
            if self.current == key:
                self.current = nxt
                self.cond.notify_all()

    def join_all(self, timeout: float = WAIT) -> None:
        for k, th in self.actors.items():
            if th is not None:
                th.join(timeout)
                if th.is_alive():
                    raise HarnessError(f"thread {k} did not finish (states={self.state})")

    def run_until_done(self, ctl: str) -> None:
        """Controller helper for free-running mode: keep handing the baton to
        tape-chosen runnable actors until all are done."""
        while True:
            live = [k for k in self.order if k != ctl and self.state.get(k) == "runnable"]
            if not live:
                break
            to = live[self.tape.draw(len(live))]
            self._hand(ctl, to)

    # -- line-level pre-emption -------------------------------------------
    def _make_tracer(self, key: str):
        suffixes = self.trace_suffixes

        def local_trace(frame, event, arg):
            if event == "line" and key in self.tracing:
                self.preempt_lines += 1
                self.yield_any(key)
            return local_trace

        def global_trace(frame, event, arg):
            if event == "call" and frame.f_code.co_filename.endswith(suffixes):
                return local_trace
            return None

        return global_trace
