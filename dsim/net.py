"""In-process socket / selector / server fakes for werkzeug's dev-server handler.

The real ``WSGIRequestHandler`` (and under it the real stdlib
``BaseHTTPRequestHandler``, ``http.client.parse_headers``,
``io.BufferedReader``) is constructed on a :class:`SimSocket`; it runs to
completion synchronously, *pulling* bytes: every ``recv_into`` advances the
client script (what has the client sent by now, in what fragments, has it hung
up) as the schedule tape decides.  Everything the server sends is captured.
"""
from __future__ import annotations

import io
import typing as t

from .core import SimHang
from .core import Tape


class ClientScript:
    """What the client sends: a list of segments ``{"data": bytes, "after":
    b"..."}``; a segment with ``after`` is only sent once the server's output
    contains that marker (e.g. the body after ``100 Continue``)."""

    def __init__(self, segments: list[dict], half_close: bool = True) -> None:
        self.segments = [dict(s) for s in segments]
        self.half_close = half_close


class _SockReader(io.RawIOBase):
    def __init__(self, sock: "SimSocket") -> None:
        self.sock = sock

    def readable(self) -> bool:
        return True

    def readinto(self, b) -> int:
        return self.sock.recv_into(b)


class SimSocket:
    def __init__(self, script: ClientScript, tape: Tape, rbuf: int = 8192, reset_on_send: int | None = None, max_fragment: int = 0, timeout_at: int | None = None) -> None:
        self.script = script
        self.tape = tape
        self.rbuf = rbuf
        self.sent = bytearray()
        self.sends: list[int] = []
        self.seg = 0
        self.off = 0
        self.recv_calls = 0
        self.recv_after_last_byte = 0
        self.in_drain = False
        self.recv_in_drain = 0
        self.eof_returned = 0
        self.fragments = 0
        self.closed = False
        self.reset_on_send = reset_on_send
        self.send_calls = 0
        self.reset_fired = False
        self.max_fragment = max_fragment
        self.timeout = None
        self.blocked_on_gate = False
        self.timeout_at = timeout_at
        self.timeout_fired = False

    # -- what has "arrived" ------------------------------------------------
    def _current(self) -> bytes | None:
        """Bytes of the current deliverable segment, or None when nothing can
        be delivered right now."""
        while self.seg < len(self.script.segments):
            s = self.script.segments[self.seg]
            if self.off >= len(s["data"]):
                self.seg += 1
                self.off = 0
                continue
            gate = s.get("after")
            if gate and gate not in bytes(self.sent):
                self.blocked_on_gate = True
                return None
            return s["data"]
        return None

    def pending(self) -> bool:
        return self._current() is not None

    def all_delivered(self) -> bool:
        return self.seg >= len(self.script.segments) or (self._current() is None and not self.blocked_on_gate)

    # -- socket API ---------------------------------------------------------
    def recv_into(self, buf) -> int:
        self.recv_calls += 1
        if self.recv_calls > 200000:
            raise SimHang("server keeps calling recv")
        if self.timeout_at is not None and self.recv_calls - 1 == self.timeout_at and not self.timeout_fired:
            # a stalled client: the socket's timeout expires (socket.timeout is TimeoutError, an OSError)
            self.timeout_fired = True
            raise TimeoutError("simulated socket timeout")
        mv = memoryview(buf).cast("B")
        self.blocked_on_gate = False
        data = self._current()
        if data is None:
            if self.blocked_on_gate:
                raise SimHang("server reads the request body before sending what the client waits for")
            if self.script.half_close:
                self.eof_returned += 1
                self.recv_after_last_byte += 1
                if self.in_drain:
                    self.recv_in_drain += 1
                return 0
            raise SimHang("server reads beyond the request on a connection the client keeps open")
        avail = len(data) - self.off
        n = min(len(mv), avail)
        if self.max_fragment and n > self.max_fragment:
            n = self.max_fragment
        if n > 1:
            k = self.tape.draw(n)
            if k:
                n = k
                self.fragments += 1
        mv[:n] = data[self.off : self.off + n]
        self.off += n
        return n

    def recv(self, n: int) -> bytes:
        b = bytearray(n)
        k = self.recv_into(b)
        return bytes(b[:k])

    def sendall(self, data) -> None:
        idx = self.send_calls
        self.send_calls += 1
        if self.reset_on_send is not None and idx >= self.reset_on_send:
            self.reset_fired = True
            raise ConnectionResetError("simulated connection reset by peer")
        self.sent += bytes(data)
        self.sends.append(len(data))

    def send(self, data) -> int:
        self.sendall(data)
        return len(data)

    def makefile(self, mode: str = "r", buffering: int = -1, **kw):
        if "r" in mode:
            return io.BufferedReader(_SockReader(self), buffer_size=self.rbuf)
        raise NotImplementedError("only the read side uses makefile")

    def settimeout(self, t_) -> None:
        self.timeout = t_

    def setsockopt(self, *a) -> None:
        pass

    def getsockname(self):
        return ("127.0.0.1", 5000)

    def getpeername(self):
        return ("127.0.0.1", 54321)

    def fileno(self) -> int:
        return 99

    def shutdown(self, how) -> None:
        pass

    def close(self) -> None:
        self.closed = True


class SimSelectorModule:
    """Stands in for the ``selectors`` module inside ``werkzeug.serving``."""

    EVENT_READ = 1
    EVENT_WRITE = 2

    def __init__(self) -> None:
        self.select_calls = 0

    def DefaultSelector(self):  # noqa: N802
        mod = self

        class _Sel:
            def __init__(self) -> None:
                self.sock: SimSocket | None = None

            def register(self, sock, events, data=None):
                self.sock = sock

            def select(self, timeout=None):
                mod.select_calls += 1
                s = self.sock
                if s is None:
                    return []
                s.in_drain = True
                # readable: bytes waiting, or the client has closed and EOF is still to be seen
                if s.pending():
                    return [(None, 1)]
                if s.script.half_close and s.eof_returned == 0 and not s.blocked_on_gate:
                    return [(None, 1)]
                return []

            def close(self):
                pass

        return _Sel()


class SimServer:
    """The attributes WSGIRequestHandler reads from its server."""

    ssl_context = None
    multithread = False
    multiprocess = False
    passthrough_errors = False
    _server_version = "Werkzeug/sim"

    def __init__(self, app, server_address=("127.0.0.1", 5000)) -> None:
        self.app = app
        self.server_address = server_address
        self.logs: list[tuple[str, str]] = []

    def log(self, type: str, message: str, *args: t.Any) -> None:
        try:
            self.logs.append((type, message % args if args else message))
        except Exception:  # noqa: BLE001
            self.logs.append((type, message))


_HANDLERS: dict = {}


def handler_class(protocol: str):
    """A WSGIRequestHandler subclass with the Date header and logging pinned."""
    from werkzeug.serving import WSGIRequestHandler

    key = (WSGIRequestHandler, protocol)
    if key not in _HANDLERS:

        class SimHandler(WSGIRequestHandler):
            protocol_version = protocol

            def date_time_string(self, timestamp=None):
                return "Thu, 01 Jan 1970 00:00:00 GMT"

            def log(self, type, message, *args):
                self.server.log(type, message, *args)

            def log_date_time_string(self):
                return "01/Jan/1970 00:00:00"

        _HANDLERS[key] = SimHandler
    return _HANDLERS[key]


def run_exchange(app, script: ClientScript, tape: Tape, *, protocol: str = "HTTP/1.1", rbuf: int = 8192, reset_on_send: int | None = None, max_fragment: int = 0, timeout_at: int | None = None):
    """Run one request/response exchange through the real handler.  Returns
    (socket, server, selector module, exception escaping the handler or None)."""
    import werkzeug.serving as serving

    sock = SimSocket(script, tape, rbuf=rbuf, reset_on_send=reset_on_send, max_fragment=max_fragment, timeout_at=timeout_at)
    server = SimServer(app)
    selmod = SimSelectorModule()
    real = serving.selectors
    serving.selectors = selmod
    err = None
    try:
        handler_class(protocol)(sock, ("127.0.0.1", 54321), server)
    except SimHang:
        raise
    except BaseException as e:  # noqa: BLE001
        if isinstance(e, (KeyboardInterrupt, SystemExit)):
            raise
        err = e
    finally:
        serving.selectors = real
    return sock, server, selmod, err
