"""Kernel primitives: schedule tape, trace, outcome, scenario base class.

One integer decides everything: ``case_seed = mix(VERIF_SEED, scenario, index)``
seeds the only PRNG, which is used by ``Scenario.generate`` alone.  The
generated *case* is plain JSON (bytes travel as latin-1 strings); it carries
the operations, the configuration, the fault plan and a pre-drawn schedule
*tape*.  ``Scenario.execute`` is a pure function of the case and the code under
test: it never draws from a PRNG and never reads a real clock.
"""
from __future__ import annotations

import hashlib
import json
import random
import typing as t

MASK = (1 << 64) - 1


def splitmix64(x: int) -> int:
    x = (x + 0x9E3779B97F4A7C15) & MASK
    z = x
    z = ((z ^ (z >> 30)) * 0xBF58476D1CE4E5B9) & MASK
    z = ((z ^ (z >> 27)) * 0x94D049BB133111EB) & MASK
    return z ^ (z >> 31)


def case_seed(verif_seed: int, scenario: str, index: int) -> int:
    h = int.from_bytes(hashlib.sha256(scenario.encode()).digest()[:8], "big")
    return splitmix64(splitmix64(verif_seed & MASK) ^ splitmix64(h) ^ splitmix64(index + 0x1234567))


def b2s(b: bytes | bytearray) -> str:
    """bytes -> JSON-safe str (latin-1, exact)."""
    return bytes(b).decode("latin-1")


def s2b(s: str) -> bytes:
    """Inverse of :func:`b2s`; characters above 0xff (only a shrinker or a hand
    edit can produce them) are folded so that execution never fails on them."""
    try:
        return s.encode("latin-1")
    except UnicodeEncodeError:
        return bytes(ord(c) & 0xFF for c in s)


def short(v: t.Any, n: int = 60) -> str:
    r = repr(v)
    return r if len(r) <= n else r[: n - 3] + "..."


class HarnessError(Exception):
    """A bug in the harness (generator, model, scheduler) - never a VIOLATION."""


class SimHang(BaseException):
    """Raised by a simulated resource when the code under test keeps calling it
    without making progress.  Derives from BaseException so that ``except
    Exception`` / ``except OSError`` blocks in the code under test cannot
    swallow it."""


class CaseTimeout(BaseException):
    """Per-case CPU budget exhausted (non-termination bound)."""


class Tape:
    """The schedule tape: pre-drawn small integers answering every run-time
    question (how many bytes, who runs next, does this call fail).  When the
    tape is exhausted every answer is 0, which every consumer reads as the
    trivial choice (deliver everything, keep running the same actor, no fault),
    so a truncated or edited tape is still a legal execution."""

    __slots__ = ("values", "pos", "used")

    def __init__(self, values: t.Sequence[int] | None = None) -> None:
        self.values = list(values or ())
        self.pos = 0
        self.used = 0

    def draw(self, n: int) -> int:
        """An integer in ``[0, n)``; 0 when exhausted or n <= 1."""
        if n <= 1:
            # still consume, so positions do not depend on the sizes offered
            self.pos += 1
            return 0
        if self.pos < len(self.values):
            v = self.values[self.pos]
            self.pos += 1
            self.used += 1
            if not isinstance(v, int) or v < 0:
                return 0
            return v % n
        self.pos += 1
        return 0


class Trace:
    """Append-only event list; its digest identifies an execution."""

    __slots__ = ("events", "_h", "n", "keep")

    def __init__(self, keep: int = 400) -> None:
        self.events: list[str] = []
        self._h = hashlib.sha256()
        self.n = 0
        self.keep = keep

    def add(self, *parts: t.Any) -> None:
        line = " ".join(p if isinstance(p, str) else short(p, 200) for p in parts)
        self._h.update(line.encode("utf-8", "backslashreplace"))
        self._h.update(b"\n")
        self.n += 1
        if len(self.events) < self.keep:
            self.events.append(line)

    def digest(self) -> str:
        return self._h.hexdigest()[:32]


class Outcome:
    """What one execution produced."""

    __slots__ = (
        "violations",
        "digest",
        "probes",
        "faults",
        "nontrivial",
        "key",
        "sim_time",
        "steps",
        "trace",
        "config",
        "extra",
    )

    def __init__(self) -> None:
        self.violations: list[tuple[str, str]] = []  # (class, message)
        self.digest = ""
        self.probes: dict[str, int] = {}
        self.faults: dict[str, int] = {}
        self.nontrivial = False
        self.key = ""  # distinctness key
        self.sim_time = 0.0
        self.steps = 0
        self.trace: list[str] = []
        self.config = ""  # which configuration bucket (e.g. fault-free / faults)
        self.extra: dict = {}  # e.g. {"narrow": ...}: the failing schedule of a sweep case

    def violate(self, cls: str, msg: str) -> None:
        self.violations.append((cls, msg))

    def probe(self, name: str, n: int = 1) -> None:
        self.probes[name] = self.probes.get(name, 0) + n

    def fault(self, name: str, n: int = 1) -> None:
        self.faults[name] = self.faults.get(name, 0) + n


class Scenario:
    """Base class.  Subclasses set ``pid``, ``name``, ``cases`` and implement
    ``generate`` and ``execute``."""

    pid = "C00"
    name = "scenario"
    #: number of cases per tier
    cases = {"quick": 1000, "thorough": 20000}
    #: chunk size for distributing case indices over workers
    chunk = 250
    #: CPU seconds allowed for a single case before it is reported as a hang
    cpu_limit = 10.0
    #: human-readable statement of what runs real and what is a stub
    real = "werkzeug code from the tree under test"
    stubs = "simulated environment"
    rule = ""
    #: evidence level of the property this scenario serves
    level = "exploration"

    def generate(self, rng: random.Random, tier: str) -> dict:
        raise NotImplementedError

    def execute(self, case: dict) -> Outcome:
        raise NotImplementedError

    def narrow(self, case: dict, hint: t.Any) -> dict:
        """Turn a sweep case into the explicit failing schedule (``hint`` comes
        from ``Outcome.extra['narrow']``) before minimisation."""
        return case

    def render(self, case: dict) -> list[str]:
        """Human-readable rendering of the schedule and fault trace (for the
        replay file); the default is the recorded trace of an execution."""
        return []

    # -- helpers ---------------------------------------------------------
    def make_case(self, verif_seed: int, index: int, tier: str) -> dict:
        rng = random.Random(case_seed(verif_seed, self.name, index))
        return self.generate(rng, tier)


def canonical(obj: t.Any) -> str:
    return json.dumps(obj, sort_keys=True, ensure_ascii=True, separators=(",", ":"))


def key_hash(s: str) -> int:
    return int.from_bytes(hashlib.blake2b(s.encode("utf-8", "backslashreplace"), digest_size=8).digest(), "big")
