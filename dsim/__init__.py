"""Deterministic simulation kernel for the werkzeug property checks.

Import order matters: ``dsim.paths`` must be imported before werkzeug so that
the checks always run the working tree they were pointed at.
"""
from . import paths  # noqa: F401
