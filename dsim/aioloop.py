"""A seeded, virtual-time asyncio event loop.

Real ``asyncio.Task`` objects run on it (so task creation really copies the
current ``contextvars`` context); the loop itself is the simulator: at every
step the schedule tape picks which ready callback runs next, and when nothing
is ready the clock jumps to the next timer, so long sleeps cost nothing.
The order may differ from asyncio's FIFO - a superset of real schedules.
"""
from __future__ import annotations

import asyncio
import heapq

from .core import HarnessError
from .core import Tape


class SimEventLoop(asyncio.BaseEventLoop):
    def __init__(self, tape: Tape, max_steps: int = 200000) -> None:
        super().__init__()
        self._sim_time = 0.0
        self._tape = tape
        self.steps = 0
        self.reorderings = 0
        self.max_steps = max_steps
        self.time_jumps = 0

    # -- the clock ---------------------------------------------------------
    def time(self) -> float:
        return self._sim_time

    # -- plumbing BaseEventLoop expects from a selector loop ---------------
    def _process_events(self, event_list) -> None:  # pragma: no cover
        pass

    def _write_to_self(self) -> None:
        pass

    # -- one simulator step --------------------------------------------------
    def _run_once(self) -> None:
        sched = self._scheduled
        while sched and sched[0]._cancelled:
            h = heapq.heappop(sched)
            h._scheduled = False
            self._timer_cancelled_count = max(0, self._timer_cancelled_count - 1)
        if not self._ready and sched:
            when = sched[0]._when
            if when > self._sim_time:
                self._sim_time = when
                self.time_jumps += 1
        end = self._sim_time + self._clock_resolution
        while sched and sched[0]._when < end:
            h = heapq.heappop(sched)
            h._scheduled = False
            if not h._cancelled:
                self._ready.append(h)
        if not self._ready:
            raise HarnessError("simulated event loop has nothing to run (deadlock in the scenario)")
        self.steps += 1
        if self.steps > self.max_steps:
            raise HarnessError("simulated event loop exceeded its step cap")
        n = len(self._ready)
        idx = self._tape.draw(n) if n > 1 else 0
        if idx:
            self.reorderings += 1
        handle = self._ready[idx]
        del self._ready[idx]
        if not handle._cancelled:
            handle._run()
        handle = None


def run(coro_fn, tape: Tape):
    """Run ``coro_fn(loop)`` to completion on a fresh simulated loop."""
    loop = SimEventLoop(tape)
    try:
        asyncio.set_event_loop(None)
        return loop.run_until_complete(coro_fn(loop)), loop
    finally:
        try:
            loop.run_until_complete(loop.shutdown_asyncgens())
        except Exception:  # noqa: BLE001
            pass
        loop.close()
