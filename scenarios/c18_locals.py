"""C18 - context-local data never leaks between concurrent contexts.

Real: werkzeug.local.Local / LocalStack / LocalManager / release_local /
LocalProxy, contextvars, real threads, real asyncio.Task objects.
Simulated: which context performs the next operation (the global order of the
case for the stepped realisations; the schedule tape for free-running threads
with line-level pre-emption inside local.py and for tasks on the seeded
virtual-time event loop), task cancellation, context release.
Oracle: reference model with one immutable mapping / stack / value per context;
after every step the acting context's complete visible state - and, in the
stepped realisations, every context's - must equal its model.
"""
from __future__ import annotations

import asyncio
import contextvars
import random

from dsim import aioloop
from dsim.core import HarnessError
from dsim.core import Outcome
from dsim.core import Scenario
from dsim.core import Tape
from dsim.core import Trace
from dsim.threads import Baton

NAMES = ["a", "b", "box"]
CV_DEFAULT = -7
UNSET = "<unset>"


class Box:
    def __init__(self, bid: int) -> None:
        self.bid = bid
        self.x = bid * 1000

    def __repr__(self) -> str:
        return f"<Box {self.bid}>"

    def __bool__(self) -> bool:
        # box 3 is an *empty container*: bound, but falsy
        return self.bid != 3


class CtxModel:
    __slots__ = ("attrs", "stack", "cv", "alive")

    def __init__(self) -> None:
        self.attrs: dict = {}
        self.stack: list = []
        self.cv = UNSET
        self.alive = True

    def copy(self) -> "CtxModel":
        m = CtxModel()
        m.attrs = dict(self.attrs)
        m.stack = list(self.stack)
        m.cv = self.cv
        return m

    def snapshot(self):
        return (dict(self.attrs), list(self.stack), self.cv)


class Engine:
    """Performs operations on the real objects inside the *current* context and
    keeps the reference model in step.  Exactly one actor runs at a time, so
    the model update that follows each real operation is atomic with it."""

    def __init__(self, out: Outcome, tr: Trace, mode: str, scn: str, manager_form: str = "list") -> None:
        from werkzeug.local import Local
        from werkzeug.local import LocalManager
        from werkzeug.local import LocalStack

        self.CV: contextvars.ContextVar = contextvars.ContextVar("c18.cv")
        self.CVD: contextvars.ContextVar = contextvars.ContextVar("c18.cvd", default=CV_DEFAULT)  # set together with CV
        self.manager_form = manager_form
        self.L = self.S = self.manager = self.mw = None
        self.boxes: dict[int, Box] = {}
        self.model: dict[int, CtxModel] = {}
        self.out = out
        self.tr = tr
        self.mode = mode
        self.pre = f"C18/{scn}"
        self.static_boxes = mode in ("threads_preempt", "asyncio")
        self.stop = False
        self.new_locals()
        self.pending: dict[int, object] = {}  # context -> response iterable of the request in flight there

    def new_locals(self) -> None:
        """(Re)create the namespace, the stack, their manager and the wrapped application.  Everything that refers to the
        previous objects is dropped first, so they are freed before their successors are allocated."""
        from werkzeug.local import Local
        from werkzeug.local import LocalManager
        from werkzeug.local import LocalStack

        self.proxies = []
        self.iters: dict[int, tuple] = {}
        old = (id(self.L) if self.L is not None else None, id(self.S) if self.S is not None else None)
        self.L = self.S = self.manager = self.mw = None
        # allocator placement is part of the schedule: prefer a successor that lands where its predecessor was (an
        # object identity that is used a second time), as long-running processes eventually produce
        cands = [Local() for _ in range(6)]
        self.L = next((x for x in cands if id(x) == old[0]), cands[0])
        del cands
        cands = [LocalStack() for _ in range(6)]
        self.S = next((x for x in cands if id(x) == old[1]), cands[0])
        del cands
        if old[0] is not None and (id(self.L), id(self.S)) == old:
            self.out.probe("successor_reuses_predecessor_identity")
        mf = self.manager_form
        # the documented ways to tell a manager what it manages: a list, a single local, or `.locals` filled later
        if mf == "single_then_append":
            self.manager = LocalManager(self.L)
            self.manager.locals.append(self.S)
        elif mf in ("append_later", "append_after_middleware"):
            self.manager = LocalManager()
            self.manager.locals.append(self.L)
            if mf == "append_later":
                self.manager.locals.append(self.S)
        else:
            self.manager = LocalManager([self.L, self.S])

        def app(environ, start_response):
            # data stored during a request is released when the server closes the response - in that context only
            setattr(self.L, environ["sim.name"], environ["sim.value"])
            self.S.push(environ["sim.value"])
            start_response("200 OK", [])
            return [b"a", b"b", b"c"]

        # one wrapped application serves every request, as in a deployed server
        self.mw = self.manager.make_middleware(app)
        if mf == "append_after_middleware":
            self.manager.locals.append(self.S)

    # -- helpers -----------------------------------------------------------
    def vio(self, what: str, msg: str) -> None:
        if not self.out.violations:
            self.out.violate(f"{self.pre}/{what}/mode={self.mode}", msg)
        self.stop = True

    def val(self, obj):
        return ("box", obj.bid) if isinstance(obj, Box) else obj

    def box(self, bid: int) -> Box:
        b = self.boxes.get(bid)
        if b is None:
            b = self.boxes[bid] = Box(bid)
        return b

    def real(self, v):
        return self.box(v[1]) if isinstance(v, tuple) else v

    # -- observation (runs inside the observed context) ----------------------
    def observe(self):
        def inner():
            attrs = {k: self.val(v) for k, v in self.L}
            stack = []
            guard = 0
            while True:
                guard += 1
                top = self.S.pop()
                if top is None or guard > 1000:
                    break
                stack.append(self.val(top))
            stack.reverse()
            cv = self.CV.get(UNSET)
            return (attrs, stack, self.val(cv) if cv is not UNSET else UNSET)

        # throw-away copy of the current context: the pops do not touch the real one
        return contextvars.copy_context().run(inner)

    def check_ctx(self, c: int, observed, after: str, acting: int) -> bool:
        want = self.model[c].snapshot()
        if observed != want:
            kind = "visible-state-differs" if c == acting else "other-context-state-changed"
            self.vio(f"{kind}/after={after}", f"context {c} sees {observed} but its model is {want} (after {after} by context {acting})")
            return False
        return True

    # -- operations (run inside the acting context) ---------------------------
    def perform(self, c: int, op: list) -> None:
        from werkzeug.local import LocalProxy
        from werkzeug.local import release_local

        m = self.model[c]
        kind = op[1]
        L, S = self.L, self.S
        a1 = op[2] if len(op) > 2 else 0
        a2 = op[3] if len(op) > 3 else 0
        name = NAMES[a1 % len(NAMES)] if isinstance(a1, int) else "a"
        res = None
        try:
            if kind == "set":
                setattr(L, name, int(a2))
                m.attrs[name] = int(a2)
            elif kind == "setbox":
                b = self.box(int(a2) % 4)
                setattr(L, name, b)
                m.attrs[name] = ("box", b.bid)
            elif kind == "get":
                try:
                    res = self.val(getattr(L, name))
                except AttributeError:
                    res = UNSET
                if res != m.attrs.get(name, UNSET):
                    self.vio("read-returns-wrong-value/op=get", f"context {c}: L.{name} -> {res}, model {m.attrs.get(name, UNSET)}")
            elif kind == "del":
                try:
                    delattr(L, name)
                    res = "deleted"
                except AttributeError:
                    res = UNSET
                if (res == "deleted") != (name in m.attrs):
                    self.vio("read-returns-wrong-value/op=del", f"context {c}: del L.{name} -> {res}, model has it: {name in m.attrs}")
                m.attrs.pop(name, None)
            elif kind == "iter":
                res = {k: self.val(v) for k, v in L}
                if res != m.attrs:
                    self.vio("read-returns-wrong-value/op=iter", f"context {c}: iter(L) -> {res}, model {m.attrs}")
            elif kind == "push":
                rv = S.push(int(a2))
                m.stack.append(int(a2))
                if [self.val(v) for v in rv] != m.stack:
                    self.vio("read-returns-wrong-value/op=push", f"context {c}: push returned {rv}, model stack {m.stack}")
            elif kind == "pushbox":
                b = self.box(int(a2) % 4)
                S.push(b)
                m.stack.append(("box", b.bid))
            elif kind == "pop":
                res = S.pop()
                want = m.stack.pop() if m.stack else None
                if (self.val(res) if res is not None else None) != want:
                    self.vio("read-returns-wrong-value/op=pop", f"context {c}: pop -> {res}, model {want}")
            elif kind == "top":
                res = S.top
                want = m.stack[-1] if m.stack else None
                if (self.val(res) if res is not None else None) != want:
                    self.vio("read-returns-wrong-value/op=top", f"context {c}: top -> {res}, model {want}")
            elif kind == "release":
                w = a1 % 3 if isinstance(a1, int) else 0
                if w == 0:
                    release_local(L)
                    m.attrs = {}
                elif w == 1:
                    release_local(S)
                    m.stack = []
                else:
                    self.manager.cleanup()
                    m.attrs = {}
                    m.stack = []
                self.out.fault("context_release")
            elif kind == "wsgi":
                # a request served through LocalManager.make_middleware: data stored during the request is
                # released when the server closes the response - in this context only
                it = self.mw({"REQUEST_METHOD": "GET", "sim.name": name, "sim.value": int(a2)}, lambda *a, **k: None)
                m.attrs[name] = int(a2)
                m.stack.append(int(a2))
                n_items = 0
                if int(a2) % 4 != 3:  # (3: the server closes the response without taking a single item)
                    for _ in it:
                        n_items += 1
                        if n_items > (int(a2) % 4):
                            break  # the server may stop iterating early
                else:
                    self.out.probe("response_closed_before_first_item")
                mid = self.observe()
                if mid != m.snapshot():
                    self.vio("visible-state-differs/after=wsgi-request-body", f"context {c} sees {mid} during the request, model {m.snapshot()}")
                it.close()
                m.attrs = {}
                m.stack = []
                self.out.fault("context_release")
                self.out.probe("middleware_request_released")
            elif kind == "wsgi_begin":
                # the same, split in two so that requests in different contexts overlap
                if c in self.pending:
                    return
                self.pending[c] = self.mw({"REQUEST_METHOD": "GET", "sim.name": name, "sim.value": int(a2)}, lambda *a, **k: None)
                m.attrs[name] = int(a2)
                m.stack.append(int(a2))
            elif kind == "wsgi_end":
                if c not in self.pending:
                    return
                it = self.pending.pop(c)
                if int(a2) % 2 == 0:
                    next(iter(it), None)
                it.close()
                m.attrs = {}
                m.stack = []
                self.out.fault("context_release")
                if self.pending:
                    self.out.probe("request_closed_while_another_in_flight")
            elif kind == "iter_begin":
                # an iterator obtained now shows the namespace as it is now, whatever is stored afterwards
                self.iters[c] = (iter(L), dict(m.attrs))
            elif kind == "iter_end":
                if c not in self.iters:
                    return
                it, snap = self.iters.pop(c)
                res = {k: self.val(v) for k, v in it}
                if res != snap:
                    self.vio("read-returns-wrong-value/op=iter-held", f"context {c}: an iterator taken when the namespace was {snap} produced {res} after later operations")
                self.out.probe("held_iterator_consumed")
            elif kind == "fresh_locals":
                if self.pending or self.static_boxes:
                    return
                L = S = None  # this frame must not keep the old objects alive either
                self.new_locals()
                for mm in self.model.values():
                    mm.attrs = {}
                    mm.stack = []
                self.out.probe("locals_recreated")
            elif kind == "cvset":
                self.CVD.set(int(a2))
                self.CV.set(int(a2))
                m.cv = int(a2)
            elif kind == "mkproxy":
                pk = a1 % 7 if isinstance(a1, int) else 0
                nm = NAMES[a2 % len(NAMES)] if isinstance(a2, int) else "a"
                if pk == 0:
                    p = L(nm)
                elif pk == 1:
                    p = S()
                elif pk == 2:
                    p = S("x")
                elif pk == 3:
                    p = LocalProxy(self.CV)
                elif pk == 6:
                    p = LocalProxy(self.CVD)  # a context variable with a default is never unbound
                elif pk == 5:
                    p = L(nm + ".x") if a2 % 2 else LocalProxy(L, nm + ".x")  # attribute chain below the namespace
                else:
                    p = LocalProxy(lambda nm=nm: getattr(L, nm))
                if len(self.proxies) < 8:
                    self.proxies.append((pk, nm, p))
            elif kind in ("pread", "pmut"):
                if self.proxies:
                    self.proxy_op(c, m, kind, self.proxies[(a1 if isinstance(a1, int) else 0) % len(self.proxies)], a2)
            else:
                return
        except Exception as e:  # noqa: BLE001
            self.vio(f"unexpected-exception/{type(e).__name__}/op={kind}", f"context {c}: {kind} raised {type(e).__name__}: {e}")
        self.tr.add("op", c, kind, a1, a2, "->", res)

    def expected_binding(self, m: CtxModel, pk: int, nm: str):
        """('bound', value) | ('unbound',) | ('attrerror',) per the model."""
        if pk in (0, 4):
            if nm in m.attrs:
                return ("bound", m.attrs[nm])
            return ("unbound",) if pk == 0 else ("callable-raises",)
        if pk == 6:
            return ("bound", m.cv if m.cv is not UNSET else CV_DEFAULT)
        if pk == 5:
            v = m.attrs.get(nm, UNSET)
            return ("bound-attr", v[1]) if isinstance(v, tuple) else ("unbound",)
        if pk == 1:
            return ("bound", m.stack[-1]) if m.stack else ("unbound",)
        if pk == 2:
            if not m.stack:
                return ("unbound",)
            top = m.stack[-1]
            if isinstance(top, tuple):
                return ("bound-attr", top[1])
            return ("attrerror",)
        return ("bound", m.cv) if m.cv is not UNSET else ("unbound",)

    def proxy_op(self, c: int, m: CtxModel, kind: str, prox, a2) -> None:
        pk, nm, p = prox
        exp = self.expected_binding(m, pk, nm)
        tag = f"proxy-kind={['local-attr', 'stack-top', 'stack-top-attr', 'contextvar', 'callable', 'local-attr-chain', 'contextvar-with-default'][pk]}"
        if kind == "pmut":
            if self.static_boxes:
                return
            try:
                p.x = int(a2)
                done = True
            except (RuntimeError, AttributeError) as e:
                done = type(e).__name__
            if exp[0] == "bound" and isinstance(exp[1], tuple):
                if done is not True:
                    self.vio(f"proxy-mutation-fails/{tag}", f"context {c}: setting .x through the proxy raised {done} although a box is bound")
                else:
                    got = self.box(exp[1][1]).x
                    if got != int(a2):
                        self.vio(f"proxy-mutates-wrong-object/{tag}", f"context {c}: wrote x={a2} through the proxy, the box bound in this context has x={got}")
            elif exp[0] == "unbound" and done != "RuntimeError":
                self.vio(f"proxy-unbound-behaviour/{tag}", f"context {c}: write through an unbound proxy gave {done}, expected RuntimeError")
            return
        # an in-place operator through the proxy leaves the name a proxy (it never turns into one context's raw object)
        if exp[0] == "bound" and not isinstance(exp[1], tuple) and isinstance(self.real(exp[1]), int):
            q = p
            try:
                q += 1
            except Exception as e:  # noqa: BLE001
                self.vio(f"proxy-forwards-wrongly/{tag}", f"context {c}: += through a proxy bound to an int raised {type(e).__name__}")
                return
            if q is not p:
                self.vio(f"proxy-replaced-by-raw-object/{tag}", f"context {c}: after `q += 1` the name holds {type(q).__name__} {q!r} instead of the proxy")
                return
        # read
        try:
            obj = p._get_current_object()
            got = ("ok", obj)
        except RuntimeError:
            got = ("RuntimeError",)
        except AttributeError:
            got = ("AttributeError",)
        if exp[0] == "bound":
            want = self.real(exp[1])
            if got[0] != "ok" or (got[1] is not want if isinstance(want, Box) else got[1] != want):
                self.vio(f"proxy-resolves-wrong-object/{tag}", f"context {c}: proxy resolved to {got}, the model binds {want}")
                return
            if not (p == want) or bool(p) != bool(want) or repr(p) != repr(want):
                self.vio(f"proxy-forwards-wrongly/{tag}", f"context {c}: ==/bool/repr through the proxy disagree with {want!r}")
        elif exp[0] == "bound-attr":
            want = self.box(exp[1]).x
            if got != ("ok", want):
                self.vio(f"proxy-resolves-wrong-object/{tag}", f"context {c}: proxy resolved to {got}, expected attribute x={want} of the top box")
        elif exp[0] == "unbound":
            ok = got == ("RuntimeError",)
            try:
                ok = ok and bool(p) is False and repr(p) == "<LocalProxy unbound>"
            except Exception as e:  # noqa: BLE001
                ok = False
                got = got + (f"bool/repr raised {type(e).__name__}",)
            if not ok:
                self.vio(f"proxy-unbound-behaviour/{tag}", f"context {c}: nothing is bound here, but the proxy gave {got}, bool={self._safe(lambda: bool(p))}, repr={self._safe(lambda: repr(p))}")
            else:
                self.out.probe("unbound_proxy_observed")
        elif exp[0] == "attrerror":
            if got[0] != "AttributeError":
                self.vio(f"proxy-resolves-wrong-object/{tag}", f"context {c}: expected AttributeError for .x of a plain value, got {got}")
        else:  # callable proxy over a missing attribute: the callable's own error surfaces
            if got[0] == "ok":
                self.vio(f"proxy-resolves-wrong-object/{tag}", f"context {c}: callable proxy resolved to {got[1]} although nothing is bound")

    @staticmethod
    def _safe(f):
        try:
            return f()
        except Exception as e:  # noqa: BLE001
            return type(e).__name__


OPKINDS = ["set", "set", "set", "setbox", "wsgi", "wsgi_begin", "wsgi_end", "iter_begin", "iter_end", "get", "del", "iter", "push", "push", "pushbox", "pop", "top", "release", "cvset", "mkproxy", "pread", "pread", "pread", "pmut", "spawn"]


class LocalsIsolation(Scenario):
    pid = "C18"
    name = "c18_locals"
    cases = {"quick": 50000, "thorough": 1000000}
    chunk = 200
    cpu_limit = 30.0
    real = "werkzeug.local (Local, LocalStack, LocalManager, release_local, LocalProxy), contextvars, real threading.Thread, real asyncio.Task"
    stubs = "baton scheduler (who runs next), SimEventLoop (seeded ready-queue choice, virtual time), the operation history"
    rule = (
        "non-trivial = at least two contexts performed a mutating operation; distinct = (realisation, executed interleaving as the sequence of (context, operation kind))"
    )

    def generate(self, rng: random.Random, tier: str) -> dict:
        mode = rng.choice(["ctxrun", "ctxrun", "threads", "threads_preempt", "asyncio", "asyncio"])
        roots = rng.choice([1, 2, 2, 3])
        nctx = roots
        maxctx = 3 if tier == "quick" else 5
        nops = rng.randrange(3, 16 if tier == "quick" else 40)
        ops = []
        uniq = 1
        for _ in range(nops):
            c = rng.randrange(nctx)
            k = rng.choice(OPKINDS)
            if k == "spawn":
                if nctx >= maxctx:
                    k = "set"
                else:
                    ops.append([c, "spawn"])
                    nctx += 1
                    continue
            if k in ("set", "push", "cvset", "pmut", "wsgi", "wsgi_begin"):
                uniq += 1
                ops.append([c, k, rng.randrange(3), 0 if k in ("set", "push", "cvset") and rng.random() < 0.12 else uniq])
            elif k in ("setbox", "pushbox"):
                ops.append([c, k, rng.randrange(3), rng.randrange(4)])
            elif k == "mkproxy":
                ops.append([c, k, rng.randrange(7), rng.randrange(3)])
            elif k in ("pread",):
                ops.append([c, k, rng.randrange(8), 0])
            else:
                ops.append([c, k, rng.randrange(3), 0])
        if nctx >= 2 and rng.random() < 0.15:
            # two requests in flight at once in different contexts, closed in either order
            c1, c2 = rng.sample(range(roots), 2) if roots >= 2 else (0, nctx - 1)
            pat = [[c1, "wsgi_begin", rng.randrange(3), uniq + 1], [c2, "wsgi_begin", rng.randrange(3), uniq + 2], [rng.choice([c1, c2]), "wsgi_end", 0, 0], [c1, "wsgi_end", 0, 0], [c2, "wsgi_end", 0, 0]]
            at = sorted(rng.randrange(len(ops) + 1) for _ in pat)
            if roots < 2:
                # the second context only exists after its spawn
                first = next((i for i, o in enumerate(ops) if o[1] == "spawn"), len(ops)) + 1
                at = sorted(rng.randrange(min(first, len(ops)), len(ops) + 1) for _ in pat)
            for off, (i, o) in enumerate(zip(at, pat)):
                ops.insert(i + off, o)
        if mode in ("ctxrun", "threads") and rng.random() < 0.1:
            # the application throws its locals away and makes new ones while the contexts live on
            ops.insert(rng.randrange(1, len(ops) + 1), [rng.randrange(nctx if False else roots), "fresh_locals", 0, 0])
        if mode == "asyncio":
            for _ in range(rng.choice([0, 0, 1, 2])):
                ops.insert(rng.randrange(len(ops) + 1), [rng.randrange(nctx), rng.choice(["sleep", "sleep", "cancel"]), rng.randrange(nctx), rng.choice([0, 1, 30])])
        # proxies usually exist from the start (module-level proxies)
        pre = [[0, "mkproxy", pk, rng.randrange(3)] for pk in rng.sample(range(7), rng.choice([0, 2, 3, 7]))]
        return {"manager_form": rng.choice(["list", "list", "single_then_append", "append_later", "append_after_middleware"]), "mode": mode, "roots": roots, "ops": pre + ops, "tape": [rng.choice([0, 0, 1, 1, 2, 3]) for _ in range(rng.choice([0, 30, 120, 400]))]}

    # ------------------------------------------------------------------
    def execute(self, case: dict) -> Outcome:
        out = Outcome()
        tr = Trace()
        mode = case.get("mode", "ctxrun")
        if mode not in ("ctxrun", "threads", "threads_preempt", "asyncio"):
            mode = "ctxrun"
        roots = max(1, min(4, int(case.get("roots", 2) or 1)))
        ops = [o for o in case.get("ops", []) if isinstance(o, list) and len(o) >= 2 and isinstance(o[0], int) and isinstance(o[1], str)]
        mf = case.get("manager_form", "list")
        eng = Engine(out, tr, mode, self.name, mf if mf in ("list", "single_then_append", "append_later", "append_after_middleware") else "list")
        tape = Tape(case.get("tape"))
        tr.add("mode", mode, "roots", roots, "ops", len(ops))
        interleaving: list = []
        if mode == "ctxrun":
            self.run_ctxrun(eng, roots, ops, interleaving)
        elif mode == "threads":
            self.run_threads_stepped(eng, roots, ops, tape, interleaving)
        elif mode == "threads_preempt":
            self.run_threads_free(eng, roots, ops, tape, interleaving, out)
        else:
            self.run_asyncio(eng, roots, ops, tape, interleaving, out)
        out.digest = tr.digest()
        out.trace = tr.events
        out.steps = len(interleaving)
        mutators = {c for c, k in interleaving if k in ("set", "setbox", "push", "pushbox", "pop", "del", "release", "cvset", "wsgi", "wsgi_begin", "wsgi_end")}
        out.nontrivial = len(mutators) >= 2
        out.key = mode + "|" + ";".join(f"{c}{k}" for c, k in interleaving)
        out.config = mode
        if any(k == "spawn" for _, k in interleaving):
            out.probe("child_context_created")
        return out

    # -- realisation 1: Context.run in one thread ---------------------------------
    def run_ctxrun(self, eng: Engine, roots: int, ops: list, inter: list) -> None:
        ctxs: dict[int, contextvars.Context] = {}
        for c in range(roots):
            ctxs[c] = contextvars.Context()
            eng.model[c] = CtxModel()
        for op in ops:
            c, kind = op[0], op[1]
            if c not in ctxs or kind in ("sleep", "cancel"):
                continue
            if kind == "spawn":
                child = len(ctxs)
                ctxs[child] = ctxs[c].run(contextvars.copy_context)
                eng.model[child] = eng.model[c].copy()
                eng.tr.add("spawn", c, "->", child)
            else:
                ctxs[c].run(eng.perform, c, op)
            inter.append((c, kind))
            if eng.stop:
                return
            for d, ctx in ctxs.items():
                if not eng.check_ctx(d, ctx.run(eng.observe), kind, c):
                    return

    # -- realisation 2: real threads stepped one operation at a time ------------------
    def run_threads_stepped(self, eng: Engine, roots: int, ops: list, tape: Tape, inter: list) -> None:
        baton = Baton(tape)
        baton.add_controller("ctl")
        mailbox: dict[int, object] = {}
        result: dict[int, object] = {}
        STOP = object()

        def worker(c: int):
            def loop():
                while True:
                    cmd = mailbox.get(c)
                    if cmd is STOP:
                        return
                    if cmd is not None:
                        mailbox[c] = None
                        result[c] = cmd()
                    baton.switch_to(f"t{c}", "ctl")

            return loop

        def call(c: int, fn):
            mailbox[c] = fn
            baton.switch_to("ctl", f"t{c}")
            if baton.errors:
                raise HarnessError(f"worker failed: {baton.errors[0][1]!r}")
            return result.get(c)

        live: list[int] = []
        try:
            for c in range(roots):
                eng.model[c] = CtxModel()
                baton.spawn(f"t{c}", worker(c))  # a new thread starts from an empty context
                live.append(c)
            for op in ops:
                c, kind = op[0], op[1]
                if c not in live or kind in ("sleep", "cancel"):
                    continue
                if kind == "spawn":
                    child = len(live)

                    def do_spawn(c=c, child=child):
                        ctx = contextvars.copy_context()  # the child is a copy taken at this instant
                        baton.spawn(f"t{child}", worker(child), runner=ctx.run)

                    call(c, do_spawn)
                    eng.model[child] = eng.model[c].copy()
                    live.append(child)
                    eng.tr.add("spawn", c, "->", child)
                else:
                    call(c, lambda c=c, op=op: eng.perform(c, op))
                inter.append((c, kind))
                if eng.stop:
                    break
                ok = True
                for d in live:
                    if not eng.check_ctx(d, call(d, eng.observe), kind, c):
                        ok = False
                        break
                if not ok:
                    break
        finally:
            for c in live:
                mailbox[c] = STOP
            for c in live:
                if baton.state.get(f"t{c}") != "done":
                    baton.switch_to("ctl", f"t{c}")
            baton.join_all()
        eng.out.fault("thread_switch", baton.switches)

    # -- realisation 3: free-running threads, line-level pre-emption in local.py -----------
    def run_threads_free(self, eng: Engine, roots: int, ops: list, tape: Tape, inter: list, out: Outcome) -> None:
        baton = Baton(tape, trace_suffixes=("werkzeug/local.py",))
        baton.add_controller("ctl")
        seqs, spawn_child = split_ops(roots, ops)
        started: set[int] = set()

        def worker(c: int):
            key = f"t{c}"

            def body():
                for op in seqs.get(c, []):
                    if eng.stop:
                        return
                    kind = op[1]
                    if kind in ("sleep", "cancel"):
                        continue
                    if kind == "spawn":
                        child = spawn_child[id(op)]
                        ctx = contextvars.copy_context()
                        eng.model[child] = eng.model[c].copy()
                        started.add(child)
                        baton.spawn(f"t{child}", worker(child), runner=ctx.run)
                        eng.tr.add("spawn", c, "->", child)
                    else:
                        baton.tracing.add(key)
                        try:
                            eng.perform(c, op)
                        finally:
                            baton.tracing.discard(key)
                        eng.check_ctx(c, eng.observe(), kind, c)
                    inter.append((c, kind))
                    baton.yield_any(key)
                # final look at the context this thread lived in
                if not eng.stop:
                    eng.check_ctx(c, eng.observe(), "end-of-thread", c)

            return body

        for c in range(roots):
            eng.model[c] = CtxModel()
            started.add(c)
            baton.spawn(f"t{c}", worker(c))
        baton.run_until_done("ctl")
        baton.join_all()
        if baton.errors:
            raise HarnessError(f"worker failed: {baton.errors[0][1]!r}")
        out.fault("thread_switch", baton.switches)
        out.fault("preemption_point_inside_local_py", baton.preempt_lines)
        if baton.preempt_lines and baton.switches:
            out.probe("switched_between_lines_of_local_py")

    # -- realisation 4: asyncio tasks on the seeded virtual-time loop -----------------------
    def run_asyncio(self, eng: Engine, roots: int, ops: list, tape: Tape, inter: list, out: Outcome) -> None:
        seqs, spawn_child = split_ops(roots, ops)
        tasks: dict[int, asyncio.Task] = {}

        async def ctx_task(c: int):
            for op in seqs.get(c, []):
                if eng.stop:
                    return
                kind = op[1]
                if kind == "spawn":
                    child = spawn_child[id(op)]
                    eng.model[child] = eng.model[c].copy()
                    tasks[child] = asyncio.get_running_loop().create_task(ctx_task(child))  # copies this task's context now
                    eng.tr.add("spawn", c, "->", child)
                elif kind == "sleep":
                    await asyncio.sleep(float(op[3]) if len(op) > 3 and isinstance(op[3], (int, float)) else 0)
                elif kind == "cancel":
                    tgt = op[2] if len(op) > 2 else -1
                    t_ = tasks.get(tgt)
                    if t_ is not None and tgt != c and not t_.done():
                        t_.cancel()
                        out.fault("task_cancelled")
                        eng.tr.add("cancel", c, "->", tgt)
                else:
                    eng.perform(c, op)
                    eng.check_ctx(c, eng.observe(), kind, c)
                inter.append((c, kind))
                await asyncio.sleep(0)

        async def main(loop):
            for c in range(roots):
                eng.model[c] = CtxModel()
                # root tasks copy main()'s context, in which nothing was ever stored
                tasks[c] = loop.create_task(ctx_task(c))
            while True:
                pending = [t_ for t_ in tasks.values() if not t_.done()]
                if not pending:
                    break
                await asyncio.wait(pending)
            # every context, as left behind by its task (cancelled or not)
            for c, t_ in sorted(tasks.items()):
                if t_.cancelled():
                    out.probe("cancelled_task_context_checked")
                elif t_.exception() is not None:
                    raise HarnessError(f"task {c} failed: {t_.exception()!r}")
                if not eng.stop:
                    eng.check_ctx(c, t_.get_context().run(eng.observe), "end-of-run", c)

        _, loop = aioloop.run(main, tape)
        out.sim_time = loop.time()
        out.fault("ready_queue_reordering", loop.reorderings)
        if loop.time_jumps:
            out.fault("virtual_clock_jump", loop.time_jumps)


def split_ops(roots: int, ops: list):
    """Per-context operation sequences for the free-running realisations: a
    context's sequence holds its operations that come after its creation in
    the case's global order."""
    seqs: dict[int, list] = {c: [] for c in range(roots)}
    spawn_child: dict[int, int] = {}
    n = roots
    for op in ops:
        c = op[0]
        if c not in seqs:
            continue
        if op[1] == "spawn":
            spawn_child[id(op)] = n
            seqs[n] = []
            n += 1
        seqs[c].append(op)
    return seqs, spawn_child


SCENARIOS = [LocalsIsolation()]
