"""C05 - responses are well-formed WSGI output for every body, status and method.

Real: werkzeug.wrappers.Response, Headers, ClosingIterator, FileWrapper,
get_wsgi_response.  Simulated: an application actor that builds the response
through a generated history (constructor forms, header mutators with and
without CR/LF, close callbacks, make_sequence / get_data / freeze) and a server
actor that does what PEP 3333 servers do - calls get_wsgi_response, iterates the
iterable as far as the tape says (the client may go away at any item; the body
iterator may raise), and always calls close() exactly once.  The abort point is
a crash point; the thorough tier sweeps all of them per generated response.
"""
from __future__ import annotations

import random
from http import HTTPStatus

from dsim.core import Outcome
from dsim.core import Scenario
from dsim.core import Tape
from dsim.core import Trace
from dsim.core import b2s
from dsim.core import s2b
from dsim.streams import SimFile

STATUSES = [100, 101, 200, 200, 201, 204, 206, 301, 302, 304, 400, 404, 500, 599]
VALUES_OK = ["v", "text/plain", "a; b=c", "caf\xe9", "", "1", "x y", 7, 0]
VALUES_BAD = ["a\r\nX-Injected: 1", "a\nb", "\r", "evil\r\n\r\n<html>", "x\n"]
KEYS = ["X-A", "x-a", "X-B", "Content-Type", "Set-Cookie", "Cache-Control", "Vary"]
LOCATIONS = ["/next", "rel/path?x=1", "http://example.com/a", "http://☃.net/p\xe5th?q=\xe8", "/caf\xe9", "//other.example/x", "?only=query", "",
             # hosts that have no ASCII (IDNA) form: a label that is empty or whose ACE form exceeds 63 octets
             "http://" + "\xfc" * 60 + ".example/x", "http://" + "b\xfccher" * 11 + ".example/", "http://a..example/x"]


def host_unencodable(loc: str) -> bool:
    from urllib.parse import urlsplit

    try:
        host = urlsplit(loc).hostname
        if host:
            host.encode("idna")
    except (UnicodeError, ValueError):
        return True
    return False


class BodyFailure(Exception):
    pass


class Spy:
    def __init__(self) -> None:
        self.n = 0

    def __call__(self) -> None:
        self.n += 1


class CallbackFailure(Exception):
    pass


class RaisingSpy(Spy):
    """A close callback that fails (after counting).  Registered last, so everything else still has to have run."""

    def __call__(self) -> None:
        self.n += 1
        raise CallbackFailure("close callback failed")


class ClosableIter:
    def __init__(self, items, raise_at=None) -> None:
        self.items = list(items)
        self.i = 0
        self.close_calls = 0
        self.raise_at = raise_at

    def __iter__(self):
        return self

    def __next__(self):
        if self.raise_at is not None and self.i == self.raise_at:
            self.i += 1
            raise BodyFailure("body iterator failed")
        if self.i >= len(self.items):
            raise StopIteration
        v = self.items[self.i]
        self.i += 1
        return v

    def close(self) -> None:
        self.close_calls += 1


def gen_items(rng: random.Random) -> list:
    n = rng.choice([0, 1, 1, 2, 3, 6])
    items = []
    for _ in range(n):
        k = rng.randrange(6)
        if k == 0:
            items.append(["b", ""])
        elif k == 1:
            items.append(["s", ""])
        elif k == 2:
            items.append(["s", rng.choice(["hello", "caf\xe9", "☃ snow", "line\r\n"])])
        else:
            items.append(["b", b2s(rng.choice([b"data", b"\xff\x00", b"x" * 30, b"\r\n"]))])
    return items


class WsgiOutput(Scenario):
    pid = "C05"
    name = "c05_wsgi_output"
    cases = {"quick": 200000, "thorough": 3000000}
    chunk = 500
    real = "werkzeug.wrappers.Response (get_wsgi_response / get_wsgi_headers / get_app_iter / close), datastructures.Headers, wsgi.ClosingIterator, wsgi.FileWrapper"
    stubs = "application actor (construction + mutator history), server actor (how far it iterates, close), SimFile, counting close spies"
    rule = "non-trivial = at least one header mutator or close callback and a body; distinct = (body shape, status, method, mutator history, abort point)"

    def generate(self, rng: random.Random, tier: str) -> dict:
        shape = rng.choice(["str", "bytes", "list", "list", "tuple", "generator", "closable", "closable", "file_passthrough", "file_wrapper", "none"])
        muts = []
        for _ in range(rng.choice([0, 1, 2, 4, 8])):
            op = rng.choice(["add", "add", "add_header", "set", "setlist", "extend_list", "extend_dict", "update_dict", "update_list", "setdefault", "setlistdefault", "setitem", "setitem_int", "setitem_slice", "add_kw", "set_kw", "remove", "ior"])
            # either value may carry the CR/LF, independently: the second one is a keyword parameter or a later list item
            bad1, bad2 = rng.random() < 0.2, rng.random() < 0.12
            muts.append([op, rng.choice(KEYS), rng.choice(VALUES_BAD) if bad1 else rng.choice(VALUES_OK), rng.choice(VALUES_BAD) if bad2 else rng.choice(VALUES_OK), rng.randrange(4)])
        status_code = rng.choice(STATUSES)
        return {
            "shape": shape,
            "items": gen_items(rng),
            "payload": b2s(rng.choice([b"", b"file-bytes" * 3, b"\x00\xff" * 20])),
            "buffer_size": rng.choice([1, 7, 8192]),
            "status": status_code,
            "status_form": rng.choice(["int", "int", "enum", "str", "str_custom"]),
            "init_headers": rng.choice(["none", "list", "dict", "headers"]),
            "init_value": rng.choice(VALUES_OK + VALUES_BAD[:1]),
            "mutators": muts,
            "preset_length": rng.choice([None, None, None, 5, 0]),
            "location": rng.choice([None, None] + LOCATIONS),
            "autocorrect": rng.random() < 0.6,
            "callbacks": rng.choice([0, 0, 1, 2, 3]),
            "pre_ops": [rng.choice(["make_sequence", "get_data", "calculate_content_length", "is_sequence"]) for _ in range(rng.choice([0, 0, 0, 1, 2]))],
            "method": rng.choice(["GET", "GET", "HEAD", "POST"]),
            "abort": rng.choice(["sweep", "full", "full", "tape"]),
            "raise_at": rng.choice([None, None, None, None, 0, 1, 2]),
            "file_tape": [rng.choice([0, 1, 3]) for _ in range(10)],
            "tape": [rng.randrange(0, 8) for _ in range(4)],
            "via_call": rng.random() < 0.4,
            # a callback registered after the response was handed to the server but before the server closes it
            "late_callbacks": rng.choice([0, 0, 0, 1, 2]),
            # the same response object answers a second request (a module-level response used as a WSGI application)
            "reuse": rng.random() < 0.2,
            # the last registered close callback raises: the iterable's close and the other callbacks must still have run
            "raising_last": rng.random() < 0.08,
        }

    # ------------------------------------------------------------------
    def build(self, case: dict, out: Outcome, tr: Trace, pre: str):
        """The application actor.  Returns (response, facts) or None after a violation."""
        from werkzeug.datastructures import Headers
        from werkzeug.wrappers import Response
        from werkzeug.wsgi import FileWrapper

        shape = case.get("shape", "list")
        items = []
        for it in case.get("items", []):
            if isinstance(it, list) and len(it) == 2 and isinstance(it[1], str):
                items.append(s2b(it[1]) if it[0] == "b" else it[1])
        facts: dict = {"own_close": None, "file": None, "shape": shape}
        raise_at = case.get("raise_at") if isinstance(case.get("raise_at"), int) else None
        passthrough = False
        if shape == "str":
            body = "".join(i if isinstance(i, str) else i.decode("latin-1") for i in items)
            items = [body]
        elif shape == "bytes":
            body = b"".join(i.encode() if isinstance(i, str) else i for i in items)
            items = [body]
        elif shape == "list":
            body = list(items)
        elif shape == "tuple":
            body = tuple(items)
        elif shape == "generator":
            def gen():
                for j, i in enumerate(items):
                    if raise_at is not None and j == raise_at:
                        raise BodyFailure("body iterator failed")
                    yield i
            body = gen()
        elif shape == "closable":
            body = ClosableIter(items, raise_at)
            facts["own_close"] = body
        elif shape in ("file_passthrough", "file_wrapper"):
            f = SimFile(s2b(case.get("payload", "")), Tape(case.get("file_tape")), seekable=True)
            body = FileWrapper(f, max(1, int(case.get("buffer_size", 8192) or 1)))
            facts["file"] = f
            passthrough = shape == "file_passthrough"
            items = [s2b(case.get("payload", ""))]
        else:
            body = None
            items = []
        code = int(case.get("status", 200)) if isinstance(case.get("status"), int) and 100 <= case.get("status") <= 599 else 200
        form = case.get("status_form", "int")
        try:
            enum_status = HTTPStatus(code)
        except ValueError:
            enum_status = None
        if form == "enum" and enum_status is not None:
            status = enum_status
        elif form == "str":
            status = f"{code} {enum_status.phrase if enum_status else 'Custom'}"
        elif form == "str_custom":
            status = f"{code} Whatever Reason"
        else:
            status = code
        iv = str(case.get("init_value", "v"))
        ih = case.get("init_headers", "none")
        init_bad = "\r" in iv or "\n" in iv
        hdrs = None
        if ih == "list":
            hdrs = [("X-Init", iv)]
        elif ih == "dict":
            hdrs = {"X-Init": iv}
        try:
            if ih == "headers":
                hdrs = Headers([("X-Init", iv)])
            resp = Response(body, status=status, headers=hdrs, direct_passthrough=passthrough)
        except ValueError:
            if not init_bad or ih == "none":
                out.violate(f"{pre}/constructor-raises-ValueError/shape={shape}", f"Response({shape}, status={status!r}, headers={ih}) raised ValueError")
                return None
            # refused, as the property demands: continue without that header
            if ih == "headers":
                hdrs = None
            resp = Response(body, status=status, headers=None, direct_passthrough=passthrough)
            init_bad = False
            out.probe("crlf_refused_at_construction")
        facts["code"] = code
        facts["items"] = items
        self.check_stored(resp, out, pre, "constructor")
        # ---- mutator history -------------------------------------------------
        for m in case.get("mutators", []):
            if out.violations:
                return None
            if not (isinstance(m, list) and len(m) == 5):
                continue
            op, key, v1, v2, idx = m
            # (values may be given as int: every mutator has to store a native string)
            key, v1, v2 = str(key) or "X-A", v1 if type(v1) is int else str(v1), v2 if type(v2) is int else str(v2)
            idx = idx if isinstance(idx, int) else 0
            h = resp.headers
            bad = False
            uses_v2 = op in ("setlist", "extend_list", "update_list", "setlistdefault", "setitem_slice", "add_kw", "set_kw")
            bad = any(c in str(v1) for c in "\r\n") or (uses_v2 and any(c in str(v2) for c in "\r\n"))
            before = list(h)
            try:
                if op == "add":
                    h.add(key, v1)
                elif op == "add_header":
                    h.add_header(key, v1)
                elif op == "set":
                    h.set(key, v1)
                elif op == "setlist":
                    h.setlist(key, [v1, v2])
                elif op == "extend_list":
                    h.extend([(key, v1), ("X-Second", v2)])
                elif op == "extend_dict":
                    h.extend({key: v1})
                elif op == "update_dict":
                    h.update({key: v1})
                elif op == "update_list":
                    h.update([(key, v1), (key, v2)])
                elif op == "setdefault":
                    h.setdefault(key, v1)
                elif op == "setlistdefault":
                    h.setlistdefault(key, [v1, v2])
                elif op == "setitem":
                    h[key] = v1
                elif op == "setitem_int":
                    if len(h):
                        h[idx % len(h)] = (key, v1)
                    else:
                        continue
                elif op == "setitem_slice":
                    h[idx % (len(h) + 1) : (idx % (len(h) + 1)) + 1] = [(key, v1), (key, v2)]
                elif op == "add_kw":
                    h.add(key, str(v1), filename=str(v2))  # (the option syntax is defined for text values)
                elif op == "set_kw":
                    h.set(key, str(v1), charset=str(v2))
                elif op == "remove":
                    h.remove(key)
                    bad = False
                elif op == "ior":
                    h |= {key: v1}
                else:
                    continue
                raised = False
            except ValueError:
                raised = True
            except Exception as e:  # noqa: BLE001
                out.violate(f"{pre}/mutator-raises/{type(e).__name__}/op={op}", f"{op}({key!r}, {v1!r}) raised {type(e).__name__}: {e}")
                return None
            tr.add("mut", op, key, v1, "raised" if raised else "ok")
            if bad:
                out.probe("crlf_value_offered")
                # setdefault / setlistdefault on an existing key do not store anything
                stored_nothing = list(h) == before
                if not raised and not stored_nothing:
                    self.check_stored(resp, out, pre, op)
                    if not out.violations:
                        out.violate(f"{pre}/crlf-value-not-refused/op={op}", f"{op}({key!r}, {v1!r}, {v2!r}) stored a value although it contains CR/LF")
                    return None
            elif raised:
                out.violate(f"{pre}/clean-value-refused/op={op}", f"{op}({key!r}, {v1!r}, {v2!r}) raised ValueError for values without CR/LF")
                return None
            self.check_stored(resp, out, pre, op)
        if out.violations:
            return None
        # ---- the rest of the application's work --------------------------------
        pl = case.get("preset_length")
        facts["preset_length"] = None
        if isinstance(pl, int) and pl >= 0:
            resp.headers["Content-Length"] = str(pl)
            facts["preset_length"] = pl
        loc = case.get("location")
        if isinstance(loc, str):
            resp.headers["Location"] = loc
        resp.autocorrect_location_header = bool(case.get("autocorrect"))
        spies = [Spy() for _ in range(max(0, min(5, int(case.get("callbacks", 0) or 0))))]
        for s in spies:
            resp.call_on_close(s)
        facts["spies"] = spies
        for op in case.get("pre_ops", []):
            try:
                if op == "make_sequence" and not passthrough:
                    resp.make_sequence()
                elif op == "get_data" and not passthrough:
                    resp.get_data()
                elif op == "freeze":
                    resp.freeze()
                    facts["preset_length"] = None if facts["preset_length"] is None else facts["preset_length"]
                    facts["frozen"] = True
                elif op == "set_data":
                    resp.set_data("replaced ☃")
                    facts["items"] = ["replaced ☃".encode()]
                    facts["preset_length"] = None
                    facts["replaced"] = True
                elif op == "calculate_content_length":
                    resp.calculate_content_length()
                elif op == "is_sequence":
                    resp.is_sequence  # noqa: B018
            except (BodyFailure, RuntimeError):
                # the body iterator failed while the application itself consumed it: the application's problem
                facts["app_consumed_failed"] = True
                return resp, facts
            tr.add("pre", op)
        if case.get("raising_last"):
            # registered after everything else (make_sequence registers the iterable's close as a callback too)
            rs = RaisingSpy()
            resp.call_on_close(rs)
            spies.append(rs)
        return resp, facts

    def check_stored(self, resp, out: Outcome, pre: str, after: str) -> None:
        for k, v in resp.headers:
            if not isinstance(v, str) or "\r" in v or "\n" in v:
                if not out.violations:
                    out.violate(f"{pre}/stored-header-value-unsafe/after={after}", f"header {k!r} holds {v!r}")
                return

    def serve(self, case: dict, resp, facts: dict, abort_at, out: Outcome, tr: Trace, pre: str) -> None:
        """The server actor: one request served from a freshly built response."""
        method = case.get("method", "GET") if case.get("method") in ("GET", "HEAD", "POST") else "GET"
        environ = {
            "REQUEST_METHOD": method, "SERVER_NAME": "localhost", "SERVER_PORT": "80", "wsgi.url_scheme": "http",
            "SCRIPT_NAME": "", "PATH_INFO": "/p/a", "QUERY_STRING": "x=1", "HTTP_HOST": "localhost",
        }
        code = facts["code"]
        shape = facts["shape"]
        tag = f"shape={shape}"
        try:
            if case.get("via_call"):
                # the response used as a WSGI application, the way frameworks return it
                got = {}

                def start_response(status, headers, exc_info=None):
                    got["status"], got["headers"] = status, headers
                    return lambda data: None

                app_iter = resp(environ, start_response)
                status, headers = got.get("status"), got.get("headers", [])
            else:
                app_iter, status, headers = resp.get_wsgi_response(environ)
        except (BodyFailure, RuntimeError):
            if isinstance(case.get("raise_at"), int):
                return  # werkzeug had to consume a failing body (e.g. to compute a length): the failure surfaces to the server
            raise
        except UnicodeError as e:
            if isinstance(case.get("location"), str) and host_unencodable(case["location"]):
                # no ASCII form exists for that host: refusing to build the response hands nothing malformed to the server
                # (observation O6 in DESIGN.md); what must not happen is a non-ASCII Location going out, checked below
                out.probe("unencodable_location_host_refused")
                facts["refused"] = True
                return
            out.violate(f"{pre}/get_wsgi_response-raises/{type(e).__name__}/{tag}", f"{type(e).__name__}: {e}")
            return
        except Exception as e:  # noqa: BLE001
            out.violate(f"{pre}/get_wsgi_response-raises/{type(e).__name__}/{tag}", f"{type(e).__name__}: {e}")
            return
        raising = any(isinstance(s_, RaisingSpy) for s_ in facts["spies"])
        for _ in range(0 if raising else max(0, min(3, int(case.get("late_callbacks", 0) or 0)))):
            late = Spy()
            resp.call_on_close(late)
            facts["spies"].append(late)
            out.probe("callback_registered_after_call")
        # ---- headers and status ---------------------------------------------------
        if not isinstance(status, str) or not status[:3].isdigit() or int(status[:3]) != code:
            out.violate(f"{pre}/status-line-wrong/{tag}", f"status {status!r} for code {code}")
        hmap: dict[str, list[str]] = {}
        for item in headers:
            if not (isinstance(item, tuple) and len(item) == 2 and type(item[0]) is str and type(item[1]) is str):
                out.violate(f"{pre}/wsgi-header-not-native-str/{tag}", f"{item!r}")
                return
            if "\r" in item[1] or "\n" in item[1]:
                out.violate(f"{pre}/wsgi-header-value-has-newline/{tag}", f"{item!r}")
                return
            hmap.setdefault(item[0].lower(), []).append(item[1])
        loc = case.get("location")
        if isinstance(loc, str) and "location" in hmap:
            lv = hmap["location"][-1]
            if not lv.isascii():
                out.violate(f"{pre}/location-not-ascii/{tag}", f"Location {lv!r} from {loc!r}")
        if (100 <= code < 200 or code == 204) and "content-length" in hmap:
            out.violate(f"{pre}/content-length-on-{'1xx' if code < 200 else '204'}/{tag}", f"Content-Length {hmap['content-length']} with status {code}")
        # ---- the server iterates, possibly gives up, and closes --------------------------
        produced = bytearray()
        n = 0
        finished = False
        body_failed = False
        try:
            it = iter(app_iter)
            while abort_at is None or n < abort_at:
                try:
                    chunk = next(it)
                except StopIteration:
                    finished = True
                    break
                if not isinstance(chunk, bytes):
                    out.violate(f"{pre}/body-item-not-bytes/{tag}", f"{type(chunk).__name__}: {chunk!r}")
                    break
                produced += chunk
                n += 1
        except (BodyFailure, RuntimeError):
            body_failed = True
            out.fault("body_iterator_raises")
        except Exception as e:  # noqa: BLE001
            out.violate(f"{pre}/iteration-raises/{type(e).__name__}/{tag}", f"{type(e).__name__}: {e}")
        if not finished and not body_failed:
            out.fault("server_aborts_iteration")
        close = getattr(app_iter, "close", None)
        if close is not None:
            try:
                close()
            except CallbackFailure:
                out.fault("close_callback_raises")  # the application's own callback failed: the server sees the exception
            except Exception as e:  # noqa: BLE001
                out.violate(f"{pre}/close-raises/{type(e).__name__}/{tag}", f"{type(e).__name__}: {e}")
        tr.add("served", method, status, "items", n, "finished", finished, "bytes", len(produced), "abort_at", abort_at)
        if out.violations:
            return
        nobody = method == "HEAD" or 100 <= code < 200 or code in (204, 304)
        if nobody and produced:
            out.violate(f"{pre}/body-sent-for-{'HEAD' if method == 'HEAD' else code}/{tag}", f"{len(produced)} body bytes produced")
        if finished and not nobody and not facts.get("app_consumed_failed"):
            expect = b"".join(i.encode() if isinstance(i, str) else i for i in facts["items"])
            if bytes(produced) != expect and not body_failed:
                out.violate(f"{pre}/body-differs/{tag}", f"produced {bytes(produced)[-40:]!r} ({len(produced)}) expected {expect[-40:]!r} ({len(expect)})")
            cl = hmap.get("content-length")
            if cl is not None and facts["preset_length"] is None:
                if len(cl) != 1 or not cl[0].isdigit() or int(cl[0]) != len(produced):
                    out.violate(f"{pre}/computed-content-length-wrong/{tag}", f"Content-Length {cl} computed by werkzeug, {len(produced)} bytes produced")
                else:
                    out.probe("computed_content_length_checked")
        # ---- close accounting: every callback and the iterable's own close exactly once ---------------
        for i, s in enumerate(facts["spies"]):
            if s.n != 1:
                how = "direct-passthrough" if shape == "file_passthrough" and not nobody else "wrapped"
                out.violate(f"{pre}/close-callback-ran-{s.n}-times/{how}", f"call_on_close callback {i} ran {s.n} times after the server closed the iterable (method {method}, status {code}, abort_at {abort_at})")
                return
        own = facts.get("own_close")
        if own is not None and own.close_calls != 1 and not facts.get("replaced"):
            out.violate(f"{pre}/iterable-close-ran-{own.close_calls}-times/{tag}", f"the wrapped iterable's close() ran {own.close_calls} times (method {method}, status {code}, abort_at {abort_at})")
        f = facts.get("file")
        if f is not None and f.close_calls != 1 and not facts.get("replaced"):
            out.violate(f"{pre}/file-close-ran-{f.close_calls}-times/{tag}", f"the wrapped file's close() ran {f.close_calls} times (method {method}, status {code})")

    def execute(self, case: dict) -> Outcome:
        out = Outcome()
        tr = Trace()
        pre = f"{self.pid}/{self.name}"
        abort = case.get("abort", "full")
        nitems = len(case.get("items", [])) + 2
        if abort == "sweep":
            points = [None] + list(range(0, nitems))
        elif abort == "tape":
            points = [Tape(case.get("tape")).draw(nitems)]
        else:
            points = [None]
        runs = 0
        for ap in points:
            built = self.build(case, out, tr, pre)
            if built is None or out.violations:
                break
            resp, facts = built
            runs += 1
            try:
                self.serve(case, resp, facts, ap, out, tr, pre)
            except (BodyFailure, RuntimeError) as e:
                out.violate(f"{pre}/unexpected-body-failure", f"{type(e).__name__}: {e}")
            if not out.violations and case.get("reuse") and facts["shape"] in ("str", "bytes", "list", "tuple", "none") and not facts.get("app_consumed_failed"):
                # second request answered by the same object: its close runs the callbacks and the iterable's close again
                for s_ in facts["spies"]:
                    s_.n = 0
                out.probe("response_object_served_twice")
                try:
                    self.serve(case, resp, facts, ap, out, tr, pre)
                except (BodyFailure, RuntimeError) as e:
                    out.violate(f"{pre}/unexpected-body-failure", f"{type(e).__name__}: {e}")
                if out.violations:
                    out.violations[:] = [(c + "/second-request", m) for c, m in out.violations]
            if out.violations:
                out.extra["narrow"] = ap
                break
        out.digest = tr.digest()
        out.trace = tr.events
        out.steps = runs
        out.probe("abort_points_swept", runs)
        out.nontrivial = bool(case.get("items") or case.get("payload")) and bool(case.get("mutators") or case.get("callbacks"))
        out.key = repr((case.get("shape"), case.get("items"), case.get("status"), case.get("status_form"), case.get("method"), case.get("mutators"), case.get("pre_ops"), case.get("callbacks"), case.get("location"), case.get("preset_length"), abort, case.get("raise_at")))
        out.config = "fault-injecting" if abort != "full" or isinstance(case.get("raise_at"), int) else "fault-free"
        return out

    def narrow(self, case: dict, hint) -> dict:
        c = dict(case)
        if hint is None:
            c["abort"] = "full"
        else:
            c["abort"] = "tape"
            c["tape"] = [int(hint)]
        return c


class ClosingIteratorDirect(Scenario):
    """ClosingIterator used the documented way (middleware adding close actions
    to an application iterable), served by the same server actor."""

    pid = "C05"
    name = "c05_closing_iterator"
    cases = {"quick": 6000, "thorough": 60000}
    chunk = 500
    real = "werkzeug.wsgi.ClosingIterator"
    stubs = "application iterable with a counting close, close callbacks, server actor (abort point sweep)"
    rule = "non-trivial = at least one callback or a closable iterable; distinct = (iterable kind, callbacks form, items, abort point)"

    def generate(self, rng: random.Random, tier: str) -> dict:
        return {
            "kind": rng.choice(["closable", "closable", "list", "generator"]),
            "items": rng.randrange(0, 5),
            "callbacks": rng.choice(["none", "single", "list0", "list1", "list3", "tuple2"]),
            "raise_at": rng.choice([None, None, None, 0, 1]),
            "nested": rng.random() < 0.2,
        }

    def execute(self, case: dict) -> Outcome:
        from werkzeug.wsgi import ClosingIterator

        out = Outcome()
        tr = Trace()
        pre = f"{self.pid}/{self.name}"
        n = max(0, min(8, int(case.get("items", 0) or 0)))
        form = case.get("callbacks", "none")
        raise_at = case.get("raise_at") if isinstance(case.get("raise_at"), int) else None
        runs = 0
        for abort_at in [None] + list(range(0, n + 2)):
            items = [b"item%d" % i for i in range(n)]
            kind = case.get("kind", "closable")
            own = None
            if kind == "closable":
                body = own = ClosableIter(items, raise_at)
            elif kind == "generator":
                body = (i for i in items)
            else:
                body = list(items)
            spies = [Spy() for _ in range({"none": 0, "single": 1, "list0": 0, "list1": 1, "list3": 3, "tuple2": 2}.get(form, 0))]
            if form == "none":
                ci = ClosingIterator(body)
            elif form == "single":
                ci = ClosingIterator(body, spies[0])
            elif form == "tuple2":
                ci = ClosingIterator(body, tuple(spies))
            else:
                ci = ClosingIterator(body, list(spies))
            if case.get("nested"):
                outer = Spy()
                spies.append(outer)
                ci = ClosingIterator(ci, outer)
            got = []
            try:
                for chunk in ci:
                    if abort_at is not None and len(got) >= abort_at:
                        break
                    got.append(chunk)
            except BodyFailure:
                out.fault("body_iterator_raises")
            ci.close()
            runs += 1
            if raise_at is None and abort_at is None and got != items:
                out.violate(f"{pre}/items-differ/kind={kind}", f"{got} vs {items}")
            for i, s_ in enumerate(spies):
                if s_.n != 1:
                    out.violate(f"{pre}/callback-ran-{s_.n}-times/callbacks={form}", f"callback {i} of {len(spies)} ran {s_.n} times (iterable {kind}, abort_at {abort_at})")
                    break
            if own is not None and own.close_calls != 1:
                out.violate(f"{pre}/iterable-close-ran-{own.close_calls}-times/callbacks={form}", f"the wrapped iterable's close() ran {own.close_calls} times (abort_at {abort_at}, nested {bool(case.get('nested'))})")
            if out.violations:
                break
        tr.add("runs", runs, kind, form, n)
        out.digest = tr.digest()
        out.trace = tr.events
        out.steps = runs
        out.fault("server_aborts_iteration", max(0, runs - 1))
        out.nontrivial = form != "none" or case.get("kind") == "closable"
        out.key = repr(sorted(case.items()))
        out.config = "fault-injecting"
        return out


SCENARIOS = [WsgiOutput(), ClosingIteratorDirect()]
