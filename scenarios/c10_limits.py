"""C10 - configured form limits are enforced and are pure guards.

Real: MultipartDecoder, MultiPartParser, FormDataParser, get_input_stream,
LimitedStream, Request.form/files.  Simulated: the request input stream
(short reads, truncation, OSError), the limit configuration, the framing
(declared length / server-terminated input).  Monitors: decoder buffer size
after every receive_data, bytes taken from the input.  Outcome oracle:
differential against the same parse with no limits under the same schedule.
"""
from __future__ import annotations

import random

from dsim.core import Outcome
from dsim.core import Scenario
from dsim.core import SimHang
from dsim.core import Tape
from dsim.core import Trace
from dsim.core import b2s
from dsim.core import s2b
from dsim.streams import SimStream
from dsim.streams import SimStreamInto
from refmodels import multipart_gen as mg


class _Spy:
    """Installed as werkzeug.formparser.MultipartDecoder for one parse."""

    max_buffer = 0
    max_event = 0
    calls = 0

    @classmethod
    def make(cls, base):
        spy = cls

        class SpyDecoder(base):  # type: ignore[misc, valid-type]
            def receive_data(self, data):
                super().receive_data(data)
                spy.calls += 1
                if len(self.buffer) > spy.max_buffer:
                    spy.max_buffer = len(self.buffer)

            def next_event(self):
                ev = super().next_event()
                d = getattr(ev, "data", None)
                if d is not None and len(d) > spy.max_event:
                    spy.max_event = len(d)
                return ev

        return SpyDecoder


def build_body(case: dict) -> tuple[bytes, str, dict]:
    """(body bytes, content type, facts) - facts: n_parts, max_field, wellformed, kind."""
    b = case.get("body") or {}
    kind = b.get("type", "multipart")
    if kind == "urlencoded":
        from urllib.parse import quote_plus

        pairs = [(str(p[0]), str(p[1])) for p in b.get("pairs", []) if isinstance(p, list) and len(p) == 2]
        raw = "&".join(f"{quote_plus(k)}={quote_plus(v)}" for k, v in pairs).encode("ascii")
        return raw, "application/x-www-form-urlencoded", {"kind": kind, "n_parts": len(pairs), "max_field": len(raw), "wellformed": True}
    if kind == "raw":
        data = s2b(b.get("data", ""))
        boundary = str(b.get("boundary", "bnd")) or "bnd"
        return data, f'multipart/form-data; boundary="{boundary}"', {"kind": kind, "n_parts": 0, "max_field": 0, "wellformed": False}
    spec = dict(b)
    # size shorthands keep the case small: payload = unit * repeat
    parts = []
    for p in spec.get("parts", []):
        p = dict(p)
        if p.get("repeat"):
            unit = p.get("unit") or "x"
            # bare-LF / bare-CR bodies are only well-formed with payloads free of the other newline kind
            style = spec.get("newline", "crlf")
            if style == "lf":
                unit = unit.replace("\r", "") or "x"
            elif style == "cr":
                unit = unit.replace("\n", "") or "x"
            p["payload"] = (unit * (int(p["repeat"]) // max(1, len(unit)) + 1))[: int(p["repeat"])]
        hdrs = []
        for h in p.get("headers", []):
            if isinstance(h, list) and len(h) == 3:  # [name, unit, repeat]
                hdrs.append([h[0], str(h[1]) * int(h[2])])
            else:
                hdrs.append(h)
        p["headers"] = hdrs
        parts.append(p)
    spec["parts"] = parts
    body, marks = mg.render(spec)
    boundary = str(spec.get("boundary", "b")) or "b"
    truth = mg.truth(spec)
    max_field = max([len(t[3]) for t in truth if t[0] == "field"] or [0])
    facts = {"kind": kind, "n_parts": len(truth), "max_field": max_field, "wellformed": True}
    cut = case.get("cut")
    if isinstance(cut, int) and 0 < cut < len(body):
        # the client sent only the first `cut` bytes of a well-formed body and ended the request there (no closing
        # delimiter): what the prefix already shows must still be held against the limits
        nl = len(mg.NL.get(spec.get("newline", "crlf"), b"\r\n"))
        headers_seen = sum(1 for m in marks if cut >= m["data"][0] + nl)
        present = [min(cut, m["data"][1]) - m["data"][0] for m, t_ in zip(marks, truth) if t_[0] == "field" and cut > m["data"][0]]
        facts.update(wellformed=False, cut=cut, headers_seen=headers_seen, field_bytes_seen=max(present or [0]), boundary_len=len(boundary), n_parts=headers_seen, max_field=max(present or [0]))
        body = body[:cut]
    return body, f'multipart/form-data; boundary="{boundary}"', facts


class FormLimits(Scenario):
    pid = "C10"
    name = "c10_form_limits"
    cases = {"quick": 120000, "thorough": 2000000}
    chunk = 500
    real = "werkzeug.sansio.multipart.MultipartDecoder, werkzeug.formparser.MultiPartParser/FormDataParser, werkzeug.wsgi.get_input_stream/LimitedStream, Request.form/files"
    stubs = "request input stream (SimStream: short reads, truncation, OSError), environ framing, limit configuration; decoder buffer spy (subclass of the real decoder)"
    rule = (
        "non-trivial = at least one limit configured and the body non-empty; distinct = (body kind and sizes, limits relative to the body, entry point, framing, schedule)"
    )

    def generate(self, rng: random.Random, tier: str) -> dict:
        kind = rng.choice(["multipart", "multipart", "multipart", "probe_field", "probe_parts", "huge_header", "raw", "crlf_lines", "urlencoded", "urlencoded"])
        mfms = rng.choice([None, 10, 50, 200, 1000])
        if kind == "urlencoded":
            n = rng.choice([0, 1, 2, 5])
            pairs = [[rng.choice(["a", "b", "key", "é"]), rng.choice(["", "v", "x" * rng.choice([5, 49, 50, 51, 199, 200, 201, 999, 1001, 5000]), "ü" * 20])] for _ in range(n)]
            body = {"type": "urlencoded", "pairs": pairs}
        elif kind == "raw":
            data = b"".join(rng.choice([b"x" * 40, b"\r\n", b"--", b"--bnd", b"abc", b"\r", b"\n"]) for _ in range(rng.choice([1, 5, 30, 100])))
            data = data.replace(b"\r\n--bnd", b"\r\n--bnX").replace(b"\n--bnd", b"\n--bnX").replace(b"\r--bnd", b"\r--bnX")
            if data.startswith(b"--bnd"):
                data = b"x" + data
            body = {"type": "raw", "data": b2s(data), "boundary": "bnd"}
        else:
            spec = mg.gen_body_spec(rng, max_parts=4, maxlen=80, styles=("crlf", "crlf", "crlf", "lf", "cr"))
            lim = mfms or 50
            if kind == "probe_field":
                for sz in rng.sample([lim - 1, lim, lim + 1, lim + 2, 2 * lim], 2):
                    spec["parts"].append({"kind": "field", "name": "probe", "filename": None, "headers": [], "fold": False, "bodyless": False, "payload": "", "unit": rng.choice(["x", "ab\r\n", "-"]), "repeat": max(0, sz)})
                if rng.random() < 0.5:
                    spec["parts"].append({"kind": "file", "name": "upload", "filename": "big.bin", "headers": [], "fold": False, "bodyless": False, "payload": "", "unit": "0123456789\r\n", "repeat": rng.choice([lim + 1, 3 * lim, 5000])})
            elif kind == "probe_parts":
                k = rng.choice([3, 5, 8, 12])
                spec["parts"] = [{"kind": rng.choice(["field", "file"]), "name": f"p{i}", "filename": "f" if rng.random() < 0.5 else None, "headers": [], "fold": False, "bodyless": rng.random() < 0.2, "payload": "v"} for i in range(k)]
                for p in spec["parts"]:
                    if p["filename"] is None:
                        p["kind"] = "field"
                    else:
                        p["kind"] = "file"
            elif kind == "huge_header":
                spec["parts"].append({"kind": "field", "name": "h", "filename": None, "headers": [["X-Huge", "w", rng.choice([lim - 30, lim, lim * 3, 3000])]], "fold": False, "bodyless": False, "payload": "v"})
            elif kind == "crlf_lines":
                spec["newline"] = "crlf"
                spec["parts"].append({"kind": rng.choice(["field", "file"]), "name": "lines", "filename": "l.txt", "headers": [], "fold": False, "bodyless": False, "payload": "", "unit": rng.choice(["\r\n", "\n", "\r", "\r\n\r"]), "repeat": rng.choice([lim, 3 * lim, 2000])})
                if spec["parts"][-1]["kind"] == "field":
                    spec["parts"][-1]["filename"] = None
            spec["type"] = "multipart"
            body = spec
        case = {"body": body}
        raw, _, facts = build_body(case)
        n = len(raw)
        mfp = rng.choice([None, None, 0, 1, max(0, facts["n_parts"] - 1), facts["n_parts"], facts["n_parts"] + 1, 1000])
        mcl = rng.choice([None, None, 0, 20, max(0, n - 1), n, n + 1, 10 * n + 100])
        if mfms is not None and rng.random() < 0.3:
            mfms = rng.choice([max(0, facts["max_field"] - 1), facts["max_field"], facts["max_field"] + 1])
        # "terminated_empty_cl": CONTENT_LENGTH present but empty, which PEP 3333 allows for "no length"
        framing = rng.choice(["declared", "declared", "terminated", "terminated", "terminated_declared", "chunked_terminated", "none", "terminated_empty_cl"])
        faults = rng.random() < 0.15
        if body.get("type") == "multipart" and n > 2 and rng.random() < 0.12:
            case["cut"] = rng.choice([rng.randrange(1, n), rng.randrange(max(1, n - 60), n), rng.randrange(max(1, n * 2 // 3), n)])
            faults = False
            raw, _, facts = build_body(case)
            n = len(raw)
        case.update(
            {
                "mfms": mfms,
                "mfp": mfp,
                "mcl": mcl,
                "entry": rng.choice(["parser", "formdata", "formdata_loud", "request", "formdata_parse"]),
                "framing": framing,
                "bufsize": rng.choice([1, 7, 64, 1024, 65536]),
                "tape": [] if rng.random() < 0.3 else [rng.choice([0, 0, 1, 3, 17, 100, 1000]) for _ in range(80)],
                "max_read": rng.choice([0, 0, 0, 1, 13, 1000]),
                "truncate": rng.randrange(0, n + 1) if faults and n and rng.random() < 0.5 else None,
                "fail_at": [rng.randrange(0, 6)] if faults and rng.random() < 0.5 else [],
                "readinto": rng.random() < 0.5,
                "error": rng.choice(["oserror", "timeout", "reset", "broken_pipe"]),
            }
        )
        return case

    # ------------------------------------------------------------------
    def run_parse(self, case: dict, body: bytes, ctype: str, limits: tuple, with_faults: bool):
        """One parse.  Returns (result, sim, spy stats)."""
        import werkzeug.formparser as fp
        from werkzeug.exceptions import HTTPException
        from werkzeug.wrappers import Request

        mfms, mfp, mcl = limits
        framing = case.get("framing", "declared")
        entry = case.get("entry", "formdata")
        data = body
        trunc = case.get("truncate")
        uses_limited = framing == "declared" or (framing in ("terminated", "terminated_declared", "chunked_terminated", "terminated_empty_cl") and mcl is not None and entry != "formdata_parse")
        fail_at = []
        if with_faults and uses_limited:
            if isinstance(trunc, int) and framing in ("declared",):
                data = body[: max(0, trunc)]
            fail_at = [int(x) for x in case.get("fail_at", []) if isinstance(x, int)]
        stream_cls = SimStreamInto if case.get("readinto") else SimStream
        sim = stream_cls(data, Tape(case.get("tape")), fail_at=fail_at, max_read=int(case.get("max_read", 0) or 0), hang_calls=4 * len(body) + 400,
                         error=case.get("error") if case.get("error") in ("oserror", "timeout", "reset", "broken_pipe") else "oserror")
        environ = {
            "REQUEST_METHOD": "POST",
            "SERVER_NAME": "localhost",
            "SERVER_PORT": "80",
            "wsgi.url_scheme": "http",
            "PATH_INFO": "/",
            "SCRIPT_NAME": "",
            "QUERY_STRING": "",
            "wsgi.input": sim,
            "CONTENT_TYPE": ctype,
        }
        if framing in ("declared", "terminated_declared"):
            environ["CONTENT_LENGTH"] = str(len(body))
        if framing in ("terminated", "terminated_declared", "chunked_terminated", "terminated_empty_cl"):
            environ["wsgi.input_terminated"] = True
        if framing == "terminated_empty_cl":
            environ["CONTENT_LENGTH"] = ""
        if framing == "chunked_terminated":
            environ["HTTP_TRANSFER_ENCODING"] = "chunked"
        _Spy.max_buffer = _Spy.max_event = _Spy.calls = 0
        real_decoder = fp.MultipartDecoder
        fp.MultipartDecoder = _Spy.make(real_decoder)
        try:
            if entry == "parser":
                from werkzeug.http import parse_options_header
                from werkzeug.wsgi import get_content_length
                from werkzeug.wsgi import get_input_stream

                mimetype, opts = parse_options_header(ctype)
                stream = get_input_stream(environ, max_content_length=mcl)
                if mimetype == "multipart/form-data":
                    parser = fp.MultiPartParser(max_form_memory_size=mfms, max_form_parts=mfp, buffer_size=max(1, int(case.get("bufsize", 65536) or 1)))
                    form, files = parser.parse(stream, opts.get("boundary", "").encode("ascii"), get_content_length(environ))
                else:
                    _, form, files = fp.FormDataParser(max_form_memory_size=mfms, max_form_parts=mfp, silent=False).parse(stream, mimetype, get_content_length(environ), opts)
            elif entry == "formdata_parse":
                # the parser's own parse(): the limits given to the constructor apply, the caller supplies stream and length
                from werkzeug.http import parse_options_header
                from werkzeug.wsgi import get_content_length
                from werkzeug.wsgi import get_input_stream

                mimetype, opts = parse_options_header(ctype)
                p = fp.FormDataParser(max_form_memory_size=mfms, max_content_length=mcl, max_form_parts=mfp, silent=False)
                _, form, files = p.parse(get_input_stream(environ), mimetype, get_content_length(environ), opts)
            elif entry in ("formdata", "formdata_loud"):
                p = fp.FormDataParser(max_form_memory_size=mfms, max_content_length=mcl, max_form_parts=mfp, silent=entry == "formdata")
                _, form, files = p.parse_from_environ(environ)
            else:

                class Req(Request):
                    max_content_length = mcl
                    max_form_memory_size = mfms
                    max_form_parts = mfp

                req = Req(environ)
                form, files = req.form, req.files
            fl = []
            for name, f in files.items(multi=True):
                fl.append((name, f.filename, f.content_type, f.stream.read()))
                f.close()
            res = ("ok", list(form.items(multi=True)), fl)
        except HTTPException as e:
            res = ("http", type(e).__name__, e.code)
        except SimHang as e:
            res = ("hang", str(e))
        except Exception as e:  # noqa: BLE001
            res = ("exc", type(e).__name__, str(e)[:200])
        finally:
            fp.MultipartDecoder = real_decoder
        return res, sim, (_Spy.max_buffer, _Spy.max_event, _Spy.calls)

    def execute(self, case: dict) -> Outcome:
        out = Outcome()
        tr = Trace()
        pre = f"{self.pid}/{self.name}"
        body, ctype, facts = build_body(case)

        def lim(v):
            return None if v is None else max(0, int(v))

        mfms, mfp, mcl = lim(case.get("mfms")), lim(case.get("mfp")), lim(case.get("mcl"))
        framing = case.get("framing", "declared")
        entry = case.get("entry", "formdata")
        kind = facts["kind"]
        tr.add("body", kind, len(body), "parts", facts["n_parts"], "max_field", facts["max_field"], "limits", (mfms, mfp, mcl), entry, framing)
        has_faults = case.get("truncate") is not None or bool(case.get("fail_at"))
        U, usim, _ = self.run_parse(case, body, ctype, (None, None, None), False)
        L, lsim, spy = self.run_parse(case, body, ctype, (mfms, mfp, mcl), has_faults)
        tr.add("unlimited", U[:2] if U[0] != "ok" else ("ok", len(U[1]), len(U[2])), "limited", L[:3] if L[0] != "ok" else ("ok", len(L[1]), len(L[2])), "buffer", spy[0], "taken", lsim.pos)
        tag = f"kind={kind}/entry={entry}"
        declared = len(body) if framing in ("declared", "terminated_declared") else None
        fault_fired = lsim.faults_fired > 0 or (has_faults and lsim.data != body and lsim.eof_calls > 0)
        # ---- monitors --------------------------------------------------
        if mfms is not None and spy[0] > mfms:
            out.violate(f"{pre}/decoder-buffer-over-limit/{tag}", f"decoder buffer reached {spy[0]} bytes with max_form_memory_size={mfms}")
        # (FormDataParser.parse() is handed a stream by its caller: only a declared length can be held against the maximum there)
        if mcl is not None and framing in ("terminated", "chunked_terminated", "terminated_empty_cl") and lsim.pos > mcl and entry != "formdata_parse":
            out.violate(f"{pre}/stream-read-past-max-content-length/{tag}", f"{lsim.pos} bytes taken from a server-terminated stream, max_content_length={mcl}")
        if declared is not None and mcl is not None and declared > mcl and lsim.calls > 0:
            out.violate(f"{pre}/body-read-despite-declared-length-over-maximum/{tag}", f"declared {declared} > max_content_length {mcl} but {lsim.pos} bytes were read")
        if mfms is not None and kind == "urlencoded" and framing != "none" and lsim.pos > mfms + 1:
            out.violate(f"{pre}/urlencoded-read-past-memory-limit/{'declared-length' if declared is not None else 'no-declared-length'}", f"{lsim.pos} bytes of an urlencoded form were read into memory with max_form_memory_size={mfms} (entry {entry}, framing {framing})")
        # ---- a truncated body that already shows a limit being exceeded ---------------------
        if facts.get("cut") is not None and not has_faults and framing != "none":
            out.fault("request_ends_inside_body")
            need = None
            if mfp is not None and facts["headers_seen"] > mfp:
                need = f"{facts['headers_seen']} part headers were received with max_form_parts={mfp}"
            elif mfms is not None and facts["field_bytes_seen"] > mfms + facts["boundary_len"] + 64:
                need = f"{facts['field_bytes_seen']} bytes of one field were received with max_form_memory_size={mfms}"
            if need is not None:
                out.probe("limit_exceeded_before_truncation")
                if not (L[0] == "http" and L[1] == "RequestEntityTooLarge"):
                    out.violate(f"{pre}/limit-exceeded-in-truncated-body-not-reported/{'parts' if 'headers' in need else 'field'}/{tag}", f"{need} before the body ended without its closing delimiter, yet the outcome was {L[:3] if L[0] != 'ok' else ('ok', len(L[1]), len(L[2]))} (framing {framing})")
        # ---- outcome ---------------------------------------------------
        if L[0] == "hang":
            out.violate(f"{pre}/endless-read/{tag}", L[1])
        elif L[0] == "exc":
            same_as_unlimited = U[0] == "exc" and U[1] == L[1]
            if not (L[1] == "ValueError" and entry in ("parser", "formdata_loud", "formdata_parse") and same_as_unlimited):
                out.violate(f"{pre}/unexpected-exception/{L[1]}/{tag}", f"{L[1]}: {L[2]} (unlimited parse: {U[:2]})")
        elif L[0] == "http":
            if L[1] == "RequestEntityTooLarge":
                out.probe("rejected_413")
                big = max(len(body), 1)
                if (mfms is None or mfms >= big) and (mfp is None or mfp >= max(facts["n_parts"], big)) and (mcl is None or mcl > big):
                    out.violate(f"{pre}/spurious-413/{tag}", f"413 although every configured limit {(mfms, mfp, mcl)} is at least the whole body size {len(body)}")
            elif L[1] == "ClientDisconnected":
                out.probe("client_disconnected")
                if not fault_fired:
                    out.violate(f"{pre}/spurious-disconnect/{tag}", "ClientDisconnected without an injected fault")
            else:
                out.violate(f"{pre}/unexpected-http-exception/{L[1]}/{tag}", f"{L[1]} ({L[2]})")
        else:
            out.probe("accepted")
            if fault_fired and kind != "raw" and not (entry in ("formdata", "request") and L[1] == [] and L[2] == []):
                # a fault that fired must not go unnoticed unless the parse legitimately never needed those bytes
                if lsim.faults_fired:
                    out.violate(f"{pre}/io-error-swallowed/{tag}", "an injected OSError on the input did not surface")
            elif not fault_fired:
                if mfp is not None and facts["wellformed"] and kind == "multipart" and facts["n_parts"] > mfp and (L[1] or L[2]):
                    out.violate(f"{pre}/too-many-parts-accepted/{tag}", f"{facts['n_parts']} parts accepted with max_form_parts={mfp}")
                if mfms is not None and kind == "multipart" and facts["max_field"] > mfms and (L[1] or L[2]):
                    out.violate(f"{pre}/field-over-limit-accepted/{tag}", f"a {facts['max_field']}-byte field was accepted with max_form_memory_size={mfms}")
                if mfms is not None and kind == "urlencoded" and len(body) > mfms and L[1] and framing != "none":
                    how = "declared-length" if declared is not None else "no-declared-length"
                    out.violate(f"{pre}/urlencoded-over-memory-limit-accepted/{how}", f"a {len(body)}-byte urlencoded form was parsed with max_form_memory_size={mfms} (entry {entry}, framing {framing})")
                if declared is not None and mcl is not None and declared > mcl:
                    out.violate(f"{pre}/declared-length-over-maximum-accepted/{tag}", f"declared {declared} > max_content_length {mcl}")
                if L != U and kind == "urlencoded" and mcl is not None and declared is None and len(body) > mcl and L == self.run_parse(case, body[:mcl], ctype, (None, None, None), False)[0]:
                    # precise identification of finding L2: an unbounded read() on the maximum-mode stream stops at the maximum without an error
                    out.violate(f"{pre}/urlencoded-stream-silently-truncated-at-max-content-length", f"a {len(body)}-byte urlencoded body on a server-terminated stream was parsed as its first max_content_length={mcl} bytes without an error (entry {entry}, framing {framing}, max_form_memory_size {mfms})")
                elif L != U:
                    what = "ok" if U[0] == "ok" else U[1]
                    out.violate(f"{pre}/result-differs-from-unlimited-parse/{tag}/framing={framing}", f"limits {(mfms, mfp, mcl)}: limited parse {str(L[1:])[:150]} vs unlimited ({what}) {str(U[1:])[:150]}")
        out.digest = tr.digest()
        out.trace = tr.events
        out.steps = lsim.calls + usim.calls
        out.fault("short_read", lsim.short_reads + usim.short_reads)
        if lsim.faults_fired:
            out.fault("oserror_on_read", lsim.faults_fired)
        if has_faults and lsim.data != body:
            out.fault("truncated_body")
        out.nontrivial = len(body) > 0 and (mfms is not None or mfp is not None or mcl is not None)
        rel = lambda v, ref: "none" if v is None else ("lt" if v < ref else ("eq" if v == ref else "gt"))  # noqa: E731
        out.key = f"{kind}|{len(body)}|{facts['n_parts']}|{rel(mfms, facts['max_field'])}|{rel(mfp, facts['n_parts'])}|{rel(mcl, len(body))}|{entry}|{framing}|{case.get('bufsize')}|{len(case.get('tape', []))}|{case.get('max_read')}|{has_faults}"
        out.config = "fault-injecting" if has_faults else "fault-free"
        if spy[2]:
            out.probe("decoder_receive_data_calls", spy[2])
        return out


class RequestDefaults(Scenario):
    """The limits a plain ``Request`` applies when the application configures nothing
    (max_form_memory_size 500 000 bytes, max_form_parts 1000) must reach the parsers."""

    pid = "C10"
    name = "c10_request_defaults"
    cases = {"quick": 64, "thorough": 1200}
    chunk = 4
    cpu_limit = 60.0
    real = "werkzeug.wrappers.Request class defaults -> FormDataParser -> MultiPartParser / MultipartDecoder / _parse_urlencoded"
    stubs = "request input stream (SimStream short reads), bodies sized around the default limits"
    rule = "non-trivial = every case (sizes straddle a default limit); distinct = (kind, size relative to the limit, framing, schedule)"

    def generate(self, rng: random.Random, tier: str) -> dict:
        kind = rng.choice(["field", "parts", "urlencoded", "file"])
        return {
            "kind": kind,
            "delta": rng.choice([-2, -1, 0, 1, 2, 1000]),
            "framing": rng.choice(["declared", "chunked_terminated"]),
            "tape": [] if rng.random() < 0.5 else [rng.choice([0, 0, 1000, 65535, 7]) for _ in range(40)],
            "max_read": rng.choice([0, 0, 4096, 100000]),
        }

    def execute(self, case: dict) -> Outcome:
        from werkzeug.exceptions import HTTPException
        from werkzeug.wrappers import Request

        out = Outcome()
        tr = Trace()
        pre = f"{self.pid}/{self.name}"
        kind = case.get("kind", "field")
        delta = case.get("delta", 0) if isinstance(case.get("delta"), int) and -10 <= case.get("delta") <= 5000 else 0
        mfms, mfp = Request.max_form_memory_size, Request.max_form_parts
        over = False
        if kind == "parts":
            n = mfp + delta
            body = b"".join(b'--b\r\nContent-Disposition: form-data; name="p%d"\r\n\r\nv\r\n' % i for i in range(n)) + b"--b--\r\n"
            ctype = "multipart/form-data; boundary=b"
            over = n > mfp
            expect_items = n
        elif kind == "urlencoded":
            size = mfms + delta
            body = b"a=" + b"x" * (size - 2)
            ctype = "application/x-www-form-urlencoded"
            over = size > mfms
            expect_items = 1
        else:
            size = mfms + delta
            part = b"x" * size
            disp = b'form-data; name="f"' + (b'; filename="big.bin"' if kind == "file" else b"")
            body = b"--b\r\nContent-Disposition: " + disp + b"\r\n\r\n" + part + b"\r\n--b--\r\n"
            ctype = "multipart/form-data; boundary=b"
            over = kind == "field" and size > mfms
            expect_items = 1
        framing = case.get("framing", "declared")
        sim = SimStream(body, Tape(case.get("tape")), max_read=int(case.get("max_read", 0) or 0), hang_calls=len(body) + 1000)
        env = {"REQUEST_METHOD": "POST", "SERVER_NAME": "localhost", "SERVER_PORT": "80", "wsgi.url_scheme": "http", "PATH_INFO": "/", "SCRIPT_NAME": "", "QUERY_STRING": "", "wsgi.input": sim, "CONTENT_TYPE": ctype}
        if framing == "declared":
            env["CONTENT_LENGTH"] = str(len(body))
        else:
            env["wsgi.input_terminated"] = True
            env["HTTP_TRANSFER_ENCODING"] = "chunked"
        try:
            req = Request(env)
            n_items = len(list(req.form.items(multi=True))) + len(list(req.files.items(multi=True)))
            res = ("ok", n_items)
            for f in req.files.values():
                f.close()
        except HTTPException as e:
            res = ("http", type(e).__name__)
        except Exception as e:  # noqa: BLE001
            res = ("exc", type(e).__name__, str(e)[:100])
        tr.add(kind, delta, framing, len(body), "->", res)
        if res[0] == "exc":
            out.violate(f"{pre}/unexpected-exception/{res[1]}/kind={kind}", f"{res[1]}: {res[2]}")
        elif over and res != ("http", "RequestEntityTooLarge"):
            out.violate(f"{pre}/default-limit-not-applied/kind={kind}", f"{kind} of size limit{delta:+d} was answered {res} with the default Request limits ({mfms} bytes, {mfp} parts), framing {framing}")
        elif not over and res != ("ok", expect_items):
            if not (res == ("http", "RequestEntityTooLarge") and kind == "file"):
                out.violate(f"{pre}/within-default-limits-refused-or-wrong/kind={kind}", f"{kind} of size limit{delta:+d} was answered {res}, expected {expect_items} item(s)")
        out.digest = tr.digest()
        out.trace = tr.events
        out.steps = sim.calls
        out.fault("short_read", sim.short_reads)
        out.nontrivial = True
        out.key = repr((kind, delta, framing, case.get("tape"), case.get("max_read")))
        out.config = "defaults"
        return out


SCENARIOS = [FormLimits(), RequestDefaults()]
