"""C07 - hostile client input never crashes request parsing.

What the simulator decides here: the lazily parsed, body-dependent attributes
(form, files, values, data, get_data, json, stream) read the request stream, so
their outcome depends on arrival fragmentation, truncation, disconnects, I/O
errors and the limits in force.  The header / cookie / query parsers are pure
functions of a string; they ride along as *workload* (seeded input generation
only - the evidence says so) at two injection levels: L1 the environ is handed
to Request directly, L2 the request travels as bytes through the real
dev-server handler.
"""
from __future__ import annotations

import random

from dsim import net
from dsim.core import Outcome
from dsim.core import Scenario
from dsim.core import SimHang
from dsim.core import Tape
from dsim.core import Trace
from dsim.core import b2s
from dsim.core import s2b
from dsim.streams import SimStream
from dsim.streams import SimStreamInto

TOKENS = [
    ",", ";", "=", '"', "'", "*", "%", "\\", "/", ":", "@", "[", "]", "(", ")", "<", ">", "?", "&", "+", "-", "_", ".", " ", "  ", "\t",
    "q", "q=", "q=0.5", "q=1.5", "q=-1", "q=abc", "*/*", "text/*", "text/html", "utf-8", "UTF-8''", "a*=", "a*0=", "a*1*=", "*0*", "%22", "%C3%A9", "%ZZ", "%",
    "Basic", "Digest", "Bearer", "dXNlcjpwYXNz", "w6nDqQ==", "====", "YQ", "username=", "realm=", "nonce=",
    "bytes", "bytes=", "0-", "-5", "0-0", "5-1", "1-2,3-4", "bytes */*", "bytes 0-1/2", "/", "*",
    "Sun, 06 Nov 1994 08:49:37 GMT", "Sunday, 06-Nov-94 08:49:37 GMT", "Sun Nov  6 08:49:37 1994", "32 Jan 2020", "0000", "99999999999999999999",
    "1", "0", "-1", "007", "1e9", "١٢٣", "1_0", "+1", "0x10",
    "\xe9", "\xff", "\xa0", "\x80", "\xfe\xff",
    "max-age", "max-age=", "no-cache", "private=", "W/", 'W/"x"', '"x"', '""', "W/*",
    "localhost", "example.com", "[::1]", "[::1", "::1]", "host:80", "host:abc", "host:", ":80", "a.b.c", "xn--", "xn--a", "a" * 70, "..", ".",
    "name=value", "a=b; c=d", "a=\"b;c\"", "=", "=b", "a", "$Version", "a=\\073",
    "multipart/form-data", "boundary=", "boundary=x", 'boundary="x"', "application/json", "application/x-www-form-urlencoded", "charset=", "charset=utf-16", "charset=\xff",
    "en-US", "en_us", "*;q=0", "de;q=x",
    "for=1.2.3.4", "1.2.3.4", "1.2.3.4, 5.6.7.8", "unknown", "*=x", ", *=", '"a"b"',
    'profile="http://a/b"', ';level="1/2"', "text;", "/;", ";/",
]

SEED_HEADERS = {
    "HTTP_ACCEPT": ["text/html,application/xhtml+xml;q=0.9,*/*;q=0.8", "*/*", "text/*;level=1", 'application/ld+json;profile="http://www.w3.org/ns/anno.jsonld", text;level="1/2";q=0.3', "html, text;a=/, /;q=0.1"],
    "HTTP_ACCEPT_CHARSET": ["utf-8, iso-8859-1;q=0.5", "*"],
    "HTTP_ACCEPT_ENCODING": ["gzip, deflate, br", "identity;q=0"],
    "HTTP_ACCEPT_LANGUAGE": ["en-US,en;q=0.9,de;q=0.8", "*"],
    "HTTP_AUTHORIZATION": ["Basic dXNlcjpwYXNz", 'Digest username="a", realm="b", nonce="c", uri="/", response="d"', "Bearer abc.def", "Basic", "Negotiate ===="],
    "HTTP_CACHE_CONTROL": ["max-age=3600, no-cache", "private=\"a,b\", no-store", "max-age=abc"],
    "HTTP_COOKIE": ["a=b; c=d", 'x="y z"; q', "a=\\073", "=v; k="],
    "HTTP_IF_MATCH": ['"abc", W/"def"', "*"],
    "HTTP_IF_NONE_MATCH": ['W/"x"', '"a","b"', "*"],
    "HTTP_IF_MODIFIED_SINCE": ["Sun, 06 Nov 1994 08:49:37 GMT", "yesterday"],
    "HTTP_IF_UNMODIFIED_SINCE": ["Sunday, 06-Nov-94 08:49:37 GMT"],
    "HTTP_IF_RANGE": ['"etag"', "Sun, 06 Nov 1994 08:49:37 GMT", "W/\"x\""],
    "HTTP_RANGE": ["bytes=0-499", "bytes=-500", "bytes=5-, 10-20", "items=0-5", "bytes=a-b"],
    "HTTP_HOST": ["localhost", "example.com:8080", "[::1]:5000", "host:abc", "[::1", "a" * 70 + ".com", "exa mple", "xn--a.com", "\xe9.com", ".", ""],
    "HTTP_X_FORWARDED_FOR": ["1.2.3.4, 5.6.7.8", "unknown", ","],
    "HTTP_PRAGMA": ["no-cache", "a,\"b"],
    "HTTP_USER_AGENT": ["Mozilla/5.0 (X11; Linux x86_64)", ""],
    "HTTP_REFERER": ["http://example.com/a?b=c", "\xe9"],
    "HTTP_ORIGIN": ["http://example.com"],
    "HTTP_DATE": ["Sun, 06 Nov 1994 08:49:37 GMT", "0"],
    "HTTP_MAX_FORWARDS": ["10", "x", "١"],
    "HTTP_ACCESS_CONTROL_REQUEST_HEADERS": ["X-A, X-B", ",,"],
    "HTTP_ACCESS_CONTROL_REQUEST_METHOD": ["PUT"],
    "HTTP_CONTENT_ENCODING": ["gzip"],
    "HTTP_CONTENT_MD5": ["abc=="],
    "HTTP_TRANSFER_ENCODING": ["chunked", "gzip"],
}
CONTENT_TYPES = [
    "multipart/form-data; boundary=bnd", 'multipart/form-data; boundary="b n d"', "multipart/form-data", "multipart/form-data; boundary=", "multipart/form-data; boundary=\xe9",
    "application/x-www-form-urlencoded", "application/x-www-form-urlencoded; charset=utf-16", "application/json", "application/json; charset=latin-1", "application/vnd.api+json",
    "text/plain", "", "garbage", ";;;", "multipart/form-data; boundary*=utf-8''b%ZZ", "a/b; c*0=x; c*1*=y",
]
QUERY_STRINGS = ["", "a=1&b=2", "a=%C3%A9", "a=\xe9", "a=%ff", "=", "&&&", "a=b=c", "%", "a=1;b=2", "\xff=\xff", "a[]=1&a[]=2", "+=+"]
PATHS = ["/", "/a/b", "/\xc3\xa9", "/\xff", "//double", "/a%2Fb", "", "no-slash"]


def mutate(rng: random.Random, value: str, n: int) -> str:
    for _ in range(n):
        op = rng.randrange(5)
        pos = rng.randrange(len(value) + 1)
        tok = rng.choice(TOKENS)
        if op == 0:
            value = value[:pos] + tok + value[pos:]
        elif op == 1 and value:
            end = min(len(value), pos + rng.randrange(1, 6))
            value = value[:pos] + value[end:]
        elif op == 2 and value:
            end = min(len(value), pos + rng.randrange(1, 8))
            value = value[:end] + value[pos:end] + value[end:]
        elif op == 3 and value:
            end = min(len(value), pos + rng.randrange(1, 4))
            value = value[:pos] + tok + value[end:]
        else:
            value = value + tok
    # the property's domain: latin-1 without control characters
    return "".join(c for c in value if (0x20 <= ord(c) < 0x7F) or (0xA0 <= ord(c) <= 0xFF) or c == "\t")[:400]


def gen_bodies(rng: random.Random) -> str:
    kind = rng.randrange(8)
    if kind == 0:
        return ""
    if kind == 1:
        return '--bnd\r\nContent-Disposition: form-data; name="a"\r\n\r\nvalue\r\n--bnd\r\nContent-Disposition: form-data; name="f"; filename="x.txt"\r\nContent-Type: text/plain\r\n\r\nfile data\r\n--bnd--\r\n'
    if kind == 2:
        return "--bnd\r\nContent-Disposition: form-data; name*=utf-8''%ZZ; filename*0*=a; filename*2=b\r\nContent-Type: \xff\r\n\r\nv\r\n--bnd--"
    if kind == 3:
        return "a=1&b=%C3%A9&c=%ff&=&d"
    if kind == 4:
        return rng.choice(['{"a": 1}', '{"a": ', "[1,2", "\xff\xfe", "NaN", '"\\ud800"', "1" * 50])
    if kind == 5:
        return "--bnd\r\nX-No-Disposition: 1\r\n\r\nv\r\n--bnd--"
    if kind == 6:
        return "--bnd\r\nContent-Disposition: form-data; name=\"a\"\r\nContent-Type: text/plain; charset=\xe9\r\n\r\n\xff\xfe\r\n--bnd--\r\n"
    return "".join(rng.choice(TOKENS + ["\r\n", "--bnd", "--bnd--", "\r\n\r\n"]) for _ in range(rng.randrange(1, 30)))


def gen_hostile(rng: random.Random) -> dict:
    env: dict[str, str] = {}
    for key in rng.sample(sorted(SEED_HEADERS), rng.choice([1, 3, 6, 12, len(SEED_HEADERS)])):
        v = rng.choice(SEED_HEADERS[key])
        if rng.random() < 0.6:
            v = mutate(rng, v, rng.choice([1, 1, 2, 3]))
        env[key] = v
    ct = rng.choice(CONTENT_TYPES)
    if rng.random() < 0.3:
        ct = mutate(rng, ct, rng.choice([1, 2]))
    body = gen_bodies(rng)
    cl_kind = rng.choice(["exact", "exact", "exact", "less", "more", "none", "garbage", "negative", "huge"])
    return {
        "headers": env,
        "content_type": ct,
        "query": mutate(rng, rng.choice(QUERY_STRINGS), rng.choice([0, 0, 1, 2])),
        "path": rng.choice(PATHS),
        "method": rng.choice(["GET", "POST", "POST", "PUT", "HEAD"]),
        "body": body,
        "cl_kind": cl_kind,
        "terminated": rng.random() < 0.25,
        "limits": [rng.choice([None, None, 10, 100]), rng.choice([None, None, 10, 500000]), rng.choice([None, 1, 1000])],
        "tape": [] if rng.random() < 0.4 else [rng.choice([0, 1, 2, 5, 30]) for _ in range(40)],
        "fail_at": [rng.randrange(0, 5)] if rng.random() < 0.08 else [],
        "readinto": rng.random() < 0.5,
        "error": rng.choice(["oserror", "timeout", "reset", "broken_pipe"]),
        "order": rng.randrange(6),
    }


BODY_ATTRS = ["form", "files", "values", "data", "json", "stream_read", "get_data_text", "get_json_silent", "is_json"]


def touch_request(req, order: int, record) -> None:
    """The 'touch everything' application body."""
    from werkzeug.exceptions import HTTPException
    from werkzeug.wrappers import Request

    def attempt(name, fn):
        try:
            v = fn()
            record(name, None, v)
        except HTTPException as e:
            record(name, ("http", type(e).__name__), None)
        except SimHang:
            raise
        except Exception as e:  # noqa: BLE001
            record(name, ("exc", type(e).__name__, str(e)[:120]), None)

    body_first = order % 2 == 0
    body = BODY_ATTRS[order % len(BODY_ATTRS) :] + BODY_ATTRS[: order % len(BODY_ATTRS)]

    def touch_body():
        for name in body:
            if name == "stream_read":
                attempt("stream.read", lambda: req.stream.read())
            elif name == "get_data_text":
                attempt("get_data(as_text)", lambda: req.get_data(as_text=True, cache=order % 3 != 0))
            elif name == "get_json_silent":
                attempt("get_json(silent)", lambda: req.get_json(silent=True, force=order % 4 == 0))
            elif name == "files":
                def files():
                    out = []
                    for k, f in req.files.items(multi=True):
                        out.append((k, f.filename, f.content_type, f.mimetype, f.mimetype_params, f.content_length, len(f.read())))
                    return out
                attempt("files", files)
            else:
                attempt(name, lambda name=name: (lambda v: list(v.items(multi=True)) if hasattr(v, "items") and name in ("form", "values") else v)(getattr(req, name)))

    if body_first:
        touch_body()
    import inspect

    for name in sorted(n for n in dir(Request) if not n.startswith("_")):
        if name in ("form", "files", "values", "data", "json", "stream", "is_json", "input_stream"):
            continue
        static = inspect.getattr_static(Request, name)
        if isinstance(static, (classmethod, staticmethod, type)) or inspect.isfunction(static) or inspect.ismodule(static):
            continue
        attempt(name, lambda name=name: exercise(getattr(req, name)))
    attempt("user_agent.string", lambda: (req.user_agent.string, str(req.user_agent)))
    if not body_first:
        touch_body()


def exercise(v):
    """Use a parsed value the way applications do, so lazy parts run too."""
    from werkzeug import datastructures as ds

    if isinstance(v, ds.Accept):
        if isinstance(v, ds.MIMEAccept):
            offers = ["text/html", "application/json", "text/plain;level=1", "image/png"]
        elif isinstance(v, ds.LanguageAccept):
            offers = ["en", "en-US", "de", "fr-CA"]
        elif isinstance(v, ds.CharsetAccept):
            offers = ["utf-8", "latin-1", "ascii"]
        else:
            offers = ["gzip", "identity", "br", "x"]
        return (list(v), v.best, [v.quality(o) for o in offers], v.best_match(offers), [o in v for o in offers], v.find(offers[0]))
    if isinstance(v, ds.Authorization):
        # (applications log these objects: printing belongs to using them)
        return (v.type, v.token, dict(v.parameters), v.username, v.password, v.get("realm"), repr(v), str(v))
    if isinstance(v, ds.RequestCacheControl):
        return (v.max_age, v.max_stale, v.min_fresh, v.no_cache, v.no_store, v.no_transform, v.only_if_cached, dict(v), repr(v), str(v))
    if isinstance(v, ds.ETags):
        tags = v.as_set(include_weak=True)
        if not all(isinstance(t_, str) for t_ in tags):
            raise TypeError(f"ETags holds a non-string tag: {sorted(map(repr, tags))}")
        return (v.star_tag, sorted(tags), "x" in v, v.contains_weak("x"), v.contains_raw('W/"x"'), bool(v), list(v))
    if isinstance(v, ds.IfRange):
        return (v.etag, v.date, repr(v), str(v))
    if isinstance(v, ds.Range):
        return (v.units, v.ranges, v.range_for_length(10), v.range_for_length(0), v.range_for_length(None), v.make_content_range(10))
    if isinstance(v, ds.HeaderSet):
        return (list(v), "x" in v)
    if isinstance(v, ds.MultiDict):
        return list(v.items(multi=True))
    if isinstance(v, ds.Headers):
        return list(v)
    if isinstance(v, ds.EnvironHeaders):
        return list(v)
    return v


def call_parsers(value: str, record) -> None:
    from werkzeug import datastructures as ds
    from werkzeug import http
    from werkzeug.exceptions import HTTPException

    def attempt(name, fn):
        try:
            record(name, None, fn())
        except HTTPException as e:
            record(name, ("http", type(e).__name__), None)
        except Exception as e:  # noqa: BLE001
            record(name, ("exc", type(e).__name__, str(e)[:120]), None)

    attempt("parse_options_header", lambda: http.parse_options_header(value))
    attempt("parse_list_header", lambda: http.parse_list_header(value))
    attempt("parse_dict_header", lambda: http.parse_dict_header(value))
    attempt("parse_set_header", lambda: exercise(http.parse_set_header(value)))
    for cls in (ds.Accept, ds.MIMEAccept, ds.LanguageAccept, ds.CharsetAccept):
        attempt(f"parse_accept_header[{cls.__name__}]", lambda cls=cls: exercise(http.parse_accept_header(value, cls)))
    attempt("parse_cache_control_header[request]", lambda: exercise(http.parse_cache_control_header(value, cls=ds.RequestCacheControl)))

    def resp_cc():
        v = http.parse_cache_control_header(value, cls=ds.ResponseCacheControl)
        return (v.max_age, v.s_maxage, v.public, v.private, v.no_cache, v.must_revalidate, v.immutable)

    attempt("parse_cache_control_header[response]", resp_cc)
    attempt("parse_csp_header", lambda: (lambda v: (dict(v), v.default_src))(http.parse_csp_header(value)))
    attempt("parse_etags", lambda: exercise(http.parse_etags(value)))
    attempt("parse_range_header", lambda: (lambda v: None if v is None else exercise(v))(http.parse_range_header(value)))
    attempt("parse_content_range_header", lambda: (lambda v: None if v is None else (v.units, v.start, v.stop, v.length))(http.parse_content_range_header(value)))
    attempt("parse_if_range_header", lambda: exercise(http.parse_if_range_header(value)))
    attempt("parse_date", lambda: http.parse_date(value))
    attempt("parse_age", lambda: http.parse_age(value))
    attempt("parse_cookie[str]", lambda: list(http.parse_cookie(value).items(multi=True)))
    attempt("parse_cookie[environ]", lambda: list(http.parse_cookie({"HTTP_COOKIE": value}).items(multi=True)))
    attempt("Authorization.from_header", lambda: (lambda v: None if v is None else exercise(v))(ds.Authorization.from_header(value)))

    def www():
        v = ds.WWWAuthenticate.from_header(value)
        return None if v is None else (v.type, v.token, dict(v.parameters), v.realm)

    attempt("WWWAuthenticate.from_header", www)
    attempt("is_resource_modified", lambda: http.is_resource_modified({"REQUEST_METHOD": "GET", "HTTP_IF_NONE_MATCH": value, "HTTP_IF_MATCH": value, "HTTP_IF_MODIFIED_SINCE": value, "HTTP_IF_UNMODIFIED_SINCE": value, "HTTP_IF_RANGE": value, "HTTP_RANGE": value}, etag="x", last_modified=__import__("datetime").datetime(2020, 1, 1, tzinfo=__import__("datetime").timezone.utc)))


def latin1(v: str) -> str:
    """The property's domain: latin-1 strings without control characters."""
    return "".join(c for c in v if (0x20 <= ord(c) < 0x7F) or (0xA0 <= ord(c) <= 0xFF) or c == "\t")


URL_ATTRS = ("url", "base_url", "host_url", "url_root", "root_url")


def host_is_malformed(host: str) -> bool:
    """A Host value that is not ``reg-name / IPv4 / [IPv6]`` with an optional
    decimal port (RFC 3986 authority without userinfo), judged independently of
    werkzeug: used only to name recorded finding P4 narrowly."""
    h = host
    if not h:
        return True
    if h.startswith("["):
        end = h.find("]")
        if end < 0:
            return True
        inside, rest = h[1:end], h[end + 1 :]
        if not inside or any(c not in "0123456789abcdefABCDEF:." for c in inside):
            return True
        try:
            __import__("ipaddress").IPv6Address(inside)
        except ValueError:
            return True
    else:
        name, sep, rest = h.partition(":")
        rest = sep + rest
        if not name or any(not (c.isalnum() or c in "-._~") or ord(c) > 127 for c in name):
            return True
        for label in name.split("."):
            if len(label) > 63 or (label.lower().startswith("xn--") and not is_valid_ace(label)):
                return True
        if ".." in name or name.startswith(".") :
            return True
    if rest:
        if not rest.startswith(":") or (rest[1:] and not (rest[1:].isascii() and rest[1:].isdigit())):
            return True
        if rest[1:] and int(rest[1:]) > 65535:
            return True
    return False


def is_valid_ace(label: str) -> bool:
    try:
        label.encode("ascii").decode("idna")
        return True
    except UnicodeError:
        return False


def make_environ(case: dict, sim) -> dict:
    body = s2b(case.get("body", ""))
    env = {
        "REQUEST_METHOD": str(case.get("method", "GET")),
        "SCRIPT_NAME": "",
        "PATH_INFO": latin1(str(case.get("path", "/"))),
        "QUERY_STRING": latin1(str(case.get("query", ""))),
        "SERVER_NAME": "localhost",
        "SERVER_PORT": "5000",
        "SERVER_PROTOCOL": "HTTP/1.1",
        "REMOTE_ADDR": "127.0.0.1",
        "wsgi.version": (1, 0),
        "wsgi.url_scheme": "http",
        "wsgi.input": sim,
        "wsgi.errors": __import__("io").StringIO(),
        "wsgi.multithread": False,
        "wsgi.multiprocess": False,
        "wsgi.run_once": False,
    }
    for k, v in sorted((case.get("headers") or {}).items()):
        if isinstance(k, str) and k.startswith("HTTP_") and isinstance(v, str):
            env[k] = latin1(v)
    ct = case.get("content_type")
    if isinstance(ct, str) and ct != "":
        env["CONTENT_TYPE"] = latin1(ct)
    clk = case.get("cl_kind", "exact")
    cl = {"exact": str(len(body)), "less": str(max(0, len(body) - 3)), "more": str(len(body) + 7), "garbage": "12abc", "negative": "-5", "huge": "9" * 30}.get(clk)
    if cl is not None:
        env["CONTENT_LENGTH"] = cl
    if case.get("terminated"):
        env["wsgi.input_terminated"] = True
    return env


class HostileEnviron(Scenario):
    pid = "C07"
    name = "c07_hostile_environ"
    cases = {"quick": 60000, "thorough": 1000000}
    chunk = 250
    cpu_limit = 5.0
    real = "werkzeug.wrappers.Request (every public attribute), werkzeug.http parsers, datastructures (Accept, Authorization, ETags, Range, ...), formparser, LimitedStream"
    stubs = "the WSGI environ (level L1), wsgi.input (SimStream: fragmentation, truncation, disconnect, OSError), limit configuration, the touch-everything application"
    rule = (
        "decided by simulation: form/files/values/data/get_data/json/stream under fragmentation, truncated or over-long bodies, I/O errors and limits; "
        "workload only (seeded input generation): all header/cookie/query/host attributes and the named parsers. Non-trivial = a body-dependent attribute read the stream; "
        "distinct = (header set, content type, framing, body, order, schedule)"
    )

    def generate(self, rng: random.Random, tier: str) -> dict:
        return gen_hostile(rng)

    def execute(self, case: dict) -> Outcome:
        from werkzeug.wrappers import Request

        out = Outcome()
        tr = Trace()
        pre = f"{self.pid}/{self.name}"
        body = s2b(case.get("body", ""))
        lim = case.get("limits") or [None, None, None]
        lim = [(int(x) if isinstance(x, int) and x >= 0 else None) for x in (list(lim) + [None, None, None])[:3]]
        # an I/O error is only injected where werkzeug's LimitedStream sits between the application and the
        # server's stream; a server-terminated stream without max_content_length is handed out as it is
        wrapped = not (case.get("terminated") and lim[0] is None)
        stream_cls = SimStreamInto if case.get("readinto") else SimStream
        sim = stream_cls(body, Tape(case.get("tape")), fail_at=[x for x in case.get("fail_at", []) if isinstance(x, int)] if wrapped else [], hang_calls=6 * len(body) + 500,
                         error=case.get("error") if case.get("error") in ("oserror", "timeout", "reset", "broken_pipe") else "oserror")
        env = make_environ(case, sim)

        class Req(Request):
            max_content_length = lim[0]
            max_form_memory_size = lim[1]
            max_form_parts = lim[2]

        seen: list = []
        host_value = env.get("HTTP_HOST", "")

        def record(name, err, value):
            if err is not None and err[0] == "exc":
                cls = f"{pre}/{name}/{err[1]}"
                if name in URL_ATTRS and err[1] in ("ValueError", "UnicodeError") and host_is_malformed(host_value):
                    # recorded finding P4, named by its trigger so that the same exception with a well-formed Host is still new
                    cls = f"{pre}/url-attributes-raise-on-malformed-host/{err[1]}"
                if all(c != cls for c, _ in out.violations):
                    out.violate(cls, f"{name} raised {err[1]}: {err[2]}")
            seen.append((name, err[1] if err else "ok"))

        try:
            req = Req(env)
            touch_request(req, int(case.get("order", 0) or 0), record)
            hv = [v for _, v in sorted((case.get("headers") or {}).items())]
            k = int(case.get("order", 0) or 0) % max(1, len(hv))
            for v in (hv[k:] + hv[:k])[:6] + [str(case.get("content_type", "")), str(case.get("query", ""))]:
                if isinstance(v, str):
                    call_parsers(latin1(v), record)
        except SimHang as e:
            out.violate(f"{pre}/endless-read", str(e))
        tr.add("environ", sorted((k, v) for k, v in env.items() if isinstance(v, str) and (k.startswith(("HTTP_", "CONTENT_", "QUERY", "PATH")))))
        tr.add("outcomes", seen)
        out.digest = tr.digest()
        out.trace = tr.events
        out.steps = sim.calls
        out.fault("short_read", sim.short_reads)
        if sim.faults_fired:
            out.fault("oserror_on_read", sim.faults_fired)
        if case.get("cl_kind") in ("more",):
            out.fault("body_shorter_than_declared")
        if case.get("cl_kind") in ("less",):
            out.fault("body_longer_than_declared")
        out.probe("http_exceptions", sum(1 for _, r in seen if r not in ("ok",)))
        out.nontrivial = sim.calls > 0
        out.key = repr((sorted((case.get("headers") or {}).items()), case.get("content_type"), case.get("query"), case.get("cl_kind"), case.get("body"), case.get("order"), case.get("tape"), case.get("limits")))
        out.config = "fault-injecting" if (case.get("fail_at") or case.get("cl_kind") in ("more", "less")) else "fault-free"
        return out


class HostileWire(Scenario):
    """Level L2: the same hostile request as bytes through the real dev-server handler."""

    pid = "C07"
    name = "c07_hostile_wire"
    cases = {"quick": 20000, "thorough": 300000}
    chunk = 250
    cpu_limit = 5.0
    real = "werkzeug.serving.WSGIRequestHandler + stdlib http.server parsing, then werkzeug.wrappers.Request as in c07_hostile_environ"
    stubs = "SimSocket client script (fragmentation, hang-up), SimSelector, SimServer, the touch-everything application"
    rule = "non-trivial = the application ran (the stdlib did not reject the request first); distinct = the request bytes and schedule"

    def generate(self, rng: random.Random, tier: str) -> dict:
        c = gen_hostile(rng)
        c["rbuf"] = rng.choice([1, 32, 8192])
        c["hangup"] = rng.random() < 0.15
        return c

    def execute(self, case: dict) -> Outcome:
        from werkzeug.wrappers import Request

        out = Outcome()
        tr = Trace()
        pre = f"{self.pid}/{self.name}"
        body = s2b(case.get("body", ""))
        lines = []
        for k, v in sorted((case.get("headers") or {}).items()):
            if isinstance(k, str) and k.startswith("HTTP_") and isinstance(v, str):
                name = k[5:].replace("_", "-").title()
                if name.lower() in ("transfer-encoding", "expect", "connection"):
                    continue
                lines.append(f"{name}: {latin1(v).strip()}")
        ct = case.get("content_type")
        if isinstance(ct, str) and ct:
            lines.append(f"Content-Type: {latin1(ct).strip()}")
        clk = case.get("cl_kind", "exact")
        cl = {"exact": str(len(body)), "less": str(max(0, len(body) - 3)), "more": str(len(body) + 7), "garbage": "12abc", "negative": "-5", "huge": "9" * 30}.get(clk)
        if cl is not None:
            lines.append(f"Content-Length: {cl}")
        path = "".join(c for c in str(case.get("path", "/")) if 0x21 <= ord(c) < 0x7F) or "/"
        if not path.startswith("/"):
            path = "/" + path
        q = "".join(c for c in str(case.get("query", "")) if 0x21 <= ord(c) <= 0xFF and not 0x7F <= ord(c) < 0xA0)
        target = path + ("?" + q if q else "")
        method = "".join(c for c in str(case.get("method", "GET")) if c.isalpha()).upper() or "GET"
        head = (f"{method} {target} HTTP/1.1\r\n" + "".join(line + "\r\n" for line in lines) + "\r\n").encode("latin-1", "replace")
        wire = head + body
        if case.get("hangup") and body:
            wire = wire[: len(head) + len(body) // 2]
        lim = case.get("limits") or [None, None, None]
        lim = [(int(x) if isinstance(x, int) and x >= 0 else None) for x in (list(lim) + [None, None, None])[:3]]
        seen: list = []
        ran = {"n": 0}
        host_value = latin1(str((case.get("headers") or {}).get("HTTP_HOST", ""))).strip()

        def record(name, err, value):
            if err is not None and err[0] == "exc":
                cls = f"{pre}/{name}/{err[1]}"
                if name in URL_ATTRS and err[1] in ("ValueError", "UnicodeError") and host_is_malformed(host_value):
                    # recorded finding P4, named by its trigger so that the same exception with a well-formed Host is still new
                    cls = f"{pre}/url-attributes-raise-on-malformed-host/{err[1]}"
                if all(c != cls for c, _ in out.violations):
                    out.violate(cls, f"{name} raised {err[1]}: {err[2]}")
            seen.append((name, err[1] if err else "ok"))

        def app(environ, start_response):
            ran["n"] += 1

            class Req(Request):
                max_content_length = lim[0]
                max_form_memory_size = lim[1]
                max_form_parts = lim[2]

            # the dev server hands out the raw socket file: never read it unbounded (Request.stream is the safe wrapper)
            touch_request(Req(environ), int(case.get("order", 0) or 0), record)
            start_response("200 OK", [("Content-Length", "2")])
            return [b"ok"]

        script = net.ClientScript([{"data": wire}], half_close=True)
        try:
            sock, server, selmod, err = net.run_exchange(app, script, Tape(case.get("tape")), protocol="HTTP/1.1", rbuf=max(1, int(case.get("rbuf", 8192) or 1)))
        except SimHang as e:
            out.violate(f"{pre}/server-blocks-or-spins", str(e))
            sock, err = None, None
        if err is not None:
            # an exception raised by the stdlib's own request parsing before any werkzeug code other than the thin
            # ``handle`` wrapper ran is outside the property (e.g. email.utils.decode_params crashing on ``a*;a*0``)
            import traceback as _tb

            frames = [(f.filename, f.name) for f in _tb.extract_tb(err.__traceback__)]
            wz = {name for fn, name in frames if fn.endswith("werkzeug/serving.py")}
            if not ran["n"] and wz <= {"handle"}:
                out.probe("stdlib_failed_before_werkzeug")
            else:
                out.violate(f"{pre}/handler-raises/{type(err).__name__}", f"{type(err).__name__}: {err}")
        tr.add("request", head[:300], len(body), "ran", ran["n"], "outcomes", seen)
        if sock is not None:
            tr.add("response", bytes(sock.sent)[:60])
            out.steps = sock.recv_calls
            out.fault("fragmented_arrival", sock.fragments)
        if not ran["n"]:
            out.probe("rejected_by_stdlib_before_werkzeug")
        out.digest = tr.digest()
        out.trace = tr.events
        out.nontrivial = ran["n"] > 0
        out.key = repr((wire, case.get("tape"), case.get("order"), case.get("rbuf")))
        out.config = "fault-injecting" if case.get("hangup") or case.get("cl_kind") in ("more", "less") else "fault-free"
        return out


SCENARIOS = [HostileEnviron(), HostileWire()]
