"""C20 - host trust and the debugger's gates cannot be bypassed.

Real: werkzeug.debug.DebuggedApplication (dispatch, check_pin_trust, pin_auth,
_fail_pin_auth, execute_command, display_console, log_pin_request,
get_resource), host_is_trusted, get_host, Request.host.  Simulated: the clock
(werkzeug.debug.time: cookie expiry and the brute-force sleeps cost nothing),
clock jumps, process restart (a new DebuggedApplication), concurrent pinauth
attempts in baton-scheduled real threads pre-empted inside the simulated sleep,
the request histories.  A spy frame registered by the harness records whether
evaluation was reached.  Oracle: the reference model of the gates below.
"""
from __future__ import annotations

import io
import json
import os
import random
import threading

from dsim.core import HarnessError
from dsim.core import Outcome
from dsim.core import Scenario
from dsim.core import Tape
from dsim.core import Trace
from dsim.threads import Baton

PIN = "123-456-789"
ALT_PIN = "987-654-321"
PIN_TIME = 60 * 60 * 24 * 7
T0 = 1_700_000_000.0
SPY_ID = 424242

# (Host header, expected verdict against [".localhost", "127.0.0.1"]: True / False / None = either is acceptable)
HOSTS: list[tuple[str | None, bool | None]] = [
    ("localhost", True), ("localhost:5000", True), ("sub.localhost", True), ("a.b.localhost:80", True), ("127.0.0.1", True), ("127.0.0.1:5000", True),
    ("evillocalhost", False), ("localhost.evil.com", False), ("127.0.0.1.evil.com", False), ("example.com", False), (None, False), ("", False),
    ("127.0.0.2", False), ("127.0.0.10", False), ("1127.0.0.1", False), ("[::1]", False), ("[::1]:5000", False), ("xn--lcalhost-54a", False),
    ("l\xf6calhost", False), ("sub.l\xf6calhost", False), ("LOCALHOST", None), ("Sub.Localhost:80", None), ("a..localhost", False), ("a" * 70 + ".localhost", False),
    ("evil.127.0.0.1", False), ("sub.127.0.0.1:5000", False), ("localhost.127.0.0.1", False),
    (".localhost", None), ("localhost.", None), ("xn--a.localhost", None), ("evil.com:localhost", False), ("localhost@evil.com", False), ("evil.com#.localhost", False),
    # a trusted name followed by something that is not a port, or wrapped in characters no host name can contain
    ("localhost:80@evil.com", False), ("127.0.0.1:@evil.com", False), ("localhost:abc", False), ("localhost:80 evil.com", False),
    ("evil.com x.localhost", False), ("evil.com/.localhost", False), ("evil.com, x.localhost", False), ("evil.com?.localhost", False), ("evil.com\t.localhost", False),
]
TRUSTED_IDX = [i for i, (_, v) in enumerate(HOSTS) if v is True]


class SimLock:
    """The lock of the shared failed-attempts counter, owned by the scheduler: an actor that finds it taken is parked
    and the baton goes to the holder, instead of a real thread blocking while it holds the baton (re-entrant, like the
    RLock of multiprocessing.Value)."""

    def __init__(self) -> None:
        self.owner = None
        self.depth = 0
        self.baton = None
        self.me = None
        self.waiters: list = []
        self.contended = 0

    def __enter__(self):
        key = getattr(self.me, "key", None) if self.me is not None else None
        if self.baton is None or key is None:
            return self
        while self.owner is not None and self.owner != key:
            self.contended += 1
            self.waiters.append(key)
            self.baton.block(key)
            self.baton.switch_to(key, self.owner)
        self.owner = key
        self.depth += 1
        return self

    def __exit__(self, *exc):
        if self.baton is None or self.owner is None:
            return False
        self.depth -= 1
        if self.depth == 0:
            self.owner = None
            for w in self.waiters:
                self.baton.unblock(w)
            self.waiters.clear()
        return False

    acquire = __enter__

    def release(self):
        self.__exit__()


class SimValue:
    """Stands in for ``multiprocessing.Value('B')`` (the attempts counter)."""

    def __init__(self, value: int = 0) -> None:
        self.value = value
        self.lock = SimLock()

    def get_lock(self):
        return self.lock


class SimClock:
    """Stands in for the ``time`` module inside werkzeug.debug."""

    def __init__(self, now: float) -> None:
        self.now = now
        self.slept = 0.0
        self.sleeps = 0
        self.on_sleep = None

    def time(self) -> float:
        return self.now

    def sleep(self, d: float) -> None:
        self.now += d
        self.slept += d
        self.sleeps += 1
        if self.on_sleep is not None:
            self.on_sleep()


class SpyFrame:
    def __init__(self, calls: list, label: str) -> None:
        self.calls = calls
        self.label = label

    def eval(self, code: str) -> str:
        self.calls.append((self.label, code))
        return "<spy-evaluated>"


def failing_app(environ, start_response):
    raise ValueError("application failed")


def hash_pin(pin: str) -> str:
    import hashlib

    return hashlib.sha1(f"{pin} added salt".encode("utf-8", "replace")).hexdigest()[:12]


def gen_request(rng: random.Random) -> dict:
    kind = rng.choice(["eval", "eval", "eval", "console_eval", "console_page", "pinauth", "pinauth", "pinauth", "printpin", "resource", "plain"])
    host = rng.choice(TRUSTED_IDX) if rng.random() < 0.55 else rng.randrange(len(HOSTS))
    return {
        "kind": kind,
        "secret": rng.choice(["right", "right", "right", "wrong", "absent", "previous"]),
        "host": host,
        "cookie": rng.choice(["jar", "jar", "valid", "expired", "future", "wrong_hash", "malformed", "absent", "absent"]),
        "frame": rng.choice(["known", "known", "known", "unknown"]),
        "pin": rng.choice(["right", "wrong", "wrong", "right_nodash", "right_spaces", "empty"]),
    }


class DebuggerGates(Scenario):
    pid = "C20"
    name = "c20_debugger_gates"
    cases = {"quick": 24000, "thorough": 400000}
    chunk = 100
    cpu_limit = 60.0
    real = "werkzeug.debug.DebuggedApplication (all dispatch paths), DebugTraceback rendering, host_is_trusted, parse_cookie, Response.set_cookie"
    stubs = "SimClock as werkzeug.debug.time, spy frames, request histories, restart, baton-scheduled attacker threads; WERKZEUG_DEBUG_PIN pins the PIN"
    rule = "non-trivial = at least one request whose gate outcome depends on an earlier step (cookie from the jar, failed counter, clock jump, restart) ; distinct = the history"

    def generate(self, rng: random.Random, tier: str) -> dict:
        steps = []
        style = rng.choice(["mixed", "mixed", "bruteforce", "product", "concurrent"])
        n = rng.randrange(3, 12 if tier == "quick" else 24)
        if style == "bruteforce":
            k = rng.randrange(8, 15 if tier == "quick" else 41)
            for _ in range(k):
                steps.append(["req", {"kind": "pinauth", "secret": "right", "host": rng.choice(TRUSTED_IDX), "cookie": rng.choice(["absent", "absent", "absent", "expired", "wrong_hash", "jar"]), "frame": "known", "pin": rng.choice(["wrong", "wrong", "wrong", "wrong", "right", "absent"])}])
                if rng.random() < 0.1:
                    steps.append(["clock", rng.choice([60, 3600, PIN_TIME + 1, -30])])
                if rng.random() < 0.05:
                    steps.append(["restart"])
            steps.append(["req", {"kind": "eval", "secret": "right", "host": 0, "cookie": "jar", "frame": "known", "pin": "right"}])
        elif style == "concurrent":
            for _ in range(rng.randrange(0, 9)):
                steps.append(["req", {"kind": "pinauth", "secret": "right", "host": 0, "cookie": "absent", "frame": "known", "pin": "wrong"}])
            steps.append(["concurrent", [rng.choice(["wrong", "wrong", "right", "stale"]) for _ in range(rng.randrange(2, 6))]])
            steps.append(["req", {"kind": "pinauth", "secret": "right", "host": 0, "cookie": "absent", "frame": "known", "pin": "right"}])
        else:
            for _ in range(n):
                r = rng.random()
                if r < 0.12:
                    steps.append(["clock", rng.choice([1, 60, 86400, PIN_TIME - 5, PIN_TIME + 5, -3600, -PIN_TIME])])
                elif r < 0.17:
                    steps.append(["restart"])
                elif r < 0.21:
                    steps.append(["set_pin"])
                else:
                    steps.append(["req", gen_request(rng)])
        return {"evalex": rng.random() < 0.85, "pin_on": rng.random() < 0.85, "steps": steps, "tape": [rng.randrange(0, 4) for _ in range(40 if style != "concurrent" else rng.choice([40, 200, 600]))]}

    # ------------------------------------------------------------------
    def execute(self, case: dict) -> Outcome:
        import werkzeug.debug as wd

        out = Outcome()
        tr = Trace()
        pre = f"{self.pid}/{self.name}"
        clock = SimClock(T0)
        real_time = wd.time
        old_env = os.environ.get("WERKZEUG_DEBUG_PIN")
        pin_on = bool(case.get("pin_on", True))
        evalex = bool(case.get("evalex", True))
        os.environ["WERKZEUG_DEBUG_PIN"] = PIN if pin_on else "off"
        wd.time = clock
        try:
            self.run(case, wd, clock, pin_on, evalex, out, tr, pre)
        finally:
            wd.time = real_time
            if old_env is None:
                os.environ.pop("WERKZEUG_DEBUG_PIN", None)
            else:
                os.environ["WERKZEUG_DEBUG_PIN"] = old_env
        out.digest = tr.digest()
        out.trace = tr.events
        out.sim_time = clock.now - T0
        out.key = repr((case.get("evalex"), case.get("pin_on"), case.get("steps")))
        out.config = "pin-on" if pin_on else "pin-off"
        if clock.sleeps:
            out.fault("brute_force_sleep_simulated", clock.sleeps)
        return out

    def run(self, case, wd, clock, pin_on, evalex, out, tr, pre) -> None:
        st = {"failed": 0, "instance": 0, "jar": None, "prev_secret": None, "dependent": False}
        spy_calls: list = []

        def new_instance():
            st["instance"] += 1
            st["prev_secret"] = getattr(st.get("dbg"), "secret", None)
            dbg = wd.DebuggedApplication(failing_app, evalex=evalex, pin_security=True, pin_logging=False)
            dbg.secret = f"secret-of-instance-{st['instance']}"
            dbg._failed_pin_auth = SimValue(0)  # same interface; its lock is scheduled by the simulator
            dbg.frames[SPY_ID] = SpyFrame(spy_calls, "frame")
            dbg.frames[0] = SpyFrame(spy_calls, "console")
            st["dbg"] = dbg
            st["failed"] = 0
            st["pin"] = PIN  # (a new process reads the configured PIN again)
            return dbg

        new_instance()

        def vio(cls, msg):
            if not out.violations:
                out.violate(f"{pre}/{cls}", msg)

        def cookie_value(kind):
            now = int(clock.now)
            if kind == "valid":
                return f"{now - 100}|{hash_pin(st["pin"])}"
            if kind == "expired":
                return f"{now - PIN_TIME - 10}|{hash_pin(st["pin"])}"
            if kind == "future":
                return f"{now + 10 ** 6}|{hash_pin(st["pin"])}"
            if kind == "wrong_hash":
                return f"{now - 100}|{hash_pin('000-000-000')}"
            if kind == "malformed":
                return "not-a-cookie"
            if kind == "jar":
                return st["jar"]
            return None

        def model_trust(val):
            if not pin_on:
                return True
            if not val or "|" not in val:
                return False
            ts, h = val.split("|", 1)
            try:
                ts = int(ts)
            except ValueError:
                return False
            if h != hash_pin(st["pin"]):
                return None
            return (clock.now - PIN_TIME) < ts

        def call(spec, record_start=None):
            """Build the request, run it through the real middleware, return (status, headers, body)."""
            dbg = st["dbg"]
            kind = spec.get("kind", "plain")
            host = HOSTS[spec.get("host", 0) % len(HOSTS)][0] if isinstance(spec.get("host"), int) else "localhost"
            secret = {"right": dbg.secret, "wrong": "not-the-secret", "previous": st["prev_secret"] or "no-previous-secret", "absent": None}.get(spec.get("secret", "right"))
            frm = SPY_ID if spec.get("frame", "known") == "known" else 999
            pin = {"right": st["pin"], "right_nodash": st["pin"].replace("-", ""), "right_spaces": f" {st['pin']} ", "empty": "", "wrong": "111-222-333"}.get(spec.get("pin", "wrong"), "111-222-333")
            path, q = "/", []
            if kind in ("eval", "console_eval"):
                q = [("__debugger__", "yes"), ("cmd", "1+1"), ("frm", str(0 if kind == "console_eval" else frm))]
            elif kind == "pinauth":
                q = [("__debugger__", "yes"), ("cmd", "pinauth"), ("pin", pin), ("frm", str(frm))]
                if spec.get("pin") == "absent":
                    q = [x for x in q if x[0] != "pin"]  # (only sent while locked out, see below)
            elif kind == "printpin":
                q = [("__debugger__", "yes"), ("cmd", "printpin"), ("frm", str(frm))]
            elif kind == "resource":
                q = [("__debugger__", "yes"), ("cmd", "resource"), ("f", "style.css")]
            elif kind == "console_page":
                path = "/console"
            if secret is not None and q:
                q.append(("s", secret))
            from urllib.parse import urlencode

            environ = {
                "REQUEST_METHOD": "GET", "SCRIPT_NAME": "", "PATH_INFO": path, "QUERY_STRING": urlencode(q), "SERVER_NAME": "localhost", "SERVER_PORT": "5000",
                "SERVER_PROTOCOL": "HTTP/1.1", "wsgi.version": (1, 0), "wsgi.url_scheme": "http", "wsgi.input": io.BytesIO(), "wsgi.errors": io.StringIO(),
                "wsgi.multithread": True, "wsgi.multiprocess": False, "wsgi.run_once": False,
            }
            if host is not None:
                environ["HTTP_HOST"] = host
            cval = cookie_value(spec.get("cookie", "absent"))
            if cval is not None:
                environ["HTTP_COOKIE"] = f"{dbg.pin_cookie_name}={cval}"
            captured = {}

            def start_response(status, headers, exc_info=None):
                captured["status"] = int(status[:3])
                captured["headers"] = headers
                return lambda b: None

            if record_start is not None:
                record_start()
            body = b"".join(dbg(environ, start_response))
            return captured.get("status"), captured.get("headers", []), body, cval, host

        def judge(spec, result, calls_before, failed_before, trust, now_at_start):
            """Compare one response with the model (state already advanced by ``advance``)."""
            status, headers, body, cval, host = result
            kind = spec.get("kind", "plain")
            dbg = st["dbg"]
            hv = HOSTS[spec.get("host", 0) % len(HOSTS)][1] if isinstance(spec.get("host"), int) else True
            secret_ok = spec.get("secret", "right") == "right"
            frame_ok = spec.get("frame", "known") == "known" or kind == "console_eval"
            new_calls = spy_calls[calls_before:]
            tag = f"kind={kind}"
            setcookies = [v for k, v in headers if k.lower() == "set-cookie"]
            if kind in ("eval", "console_eval"):
                gates = evalex and secret_ok and frame_ok and trust is True
                if new_calls and not (gates and hv is not False):
                    missing = [n for n, ok in (("evalex", evalex), ("secret", secret_ok), ("frame", frame_ok), ("pin-trust", trust is True), ("trusted-host", hv is not False)) if not ok]
                    vio(f"evaluation-reached-without/{'+'.join(missing)}", f"the spy frame's eval ran for {spec} (host {host!r}, cookie {cval!r}, trust {trust}, evalex {evalex})")
                elif gates and hv is True and not new_calls:
                    vio(f"evaluation-not-reached-although-all-gates-pass/{tag}", f"{spec} host {host!r} status {status}")
                elif gates and hv is False and status != 400:
                    vio(f"untrusted-host-not-refused/{tag}", f"status {status} for host {host!r}")
            else:
                if new_calls:
                    vio(f"evaluation-reached-by-other-endpoint/{tag}", f"{new_calls}")
            if kind == "console_page":
                if evalex and hv is True and (status != 200 or b"secret-of-instance" not in body and b"console" not in body.lower()):
                    vio("console-page-not-served-to-trusted-host", f"status {status}")
                if evalex and hv is False and status != 400:
                    vio(f"untrusted-host-not-refused/{tag}", f"console page answered {status} for host {host!r}")
                if evalex and hv is False and dbg.secret.encode() in body:
                    vio("secret-disclosed-to-untrusted-host/kind=console_page", f"host {host!r}")
            if kind in ("pinauth", "printpin") and secret_ok:
                if hv is False:
                    if status != 400:
                        vio(f"untrusted-host-not-refused/{tag}", f"{kind} answered {status} for host {host!r}")
                    if setcookies:
                        vio("pin-cookie-issued-to-untrusted-host", f"host {host!r}")
                elif hv is True and kind == "printpin" and status != 200:
                    vio("printpin-refuses-trusted-host", f"status {status}")
                elif hv is True and kind == "pinauth":
                    try:
                        data = json.loads(body)
                    except ValueError:
                        vio("pinauth-response-not-json", f"status {status} body {body[:80]!r}")
                        return
                    pin_ok = spec.get("pin") in ("right", "right_nodash", "right_spaces")
                    if trust is None:
                        exp = {"auth": False, "exhausted": False}
                    elif trust:
                        exp = {"auth": True, "exhausted": False}
                    elif failed_before > 10:
                        exp = {"auth": False, "exhausted": True}
                    else:
                        exp = {"auth": pin_ok, "exhausted": False}
                    if data != exp:
                        what = "correct-pin-accepted-after-lockout" if data.get("auth") and failed_before > 10 and not trust else ("auth-granted-wrongly" if data.get("auth") and not exp["auth"] else "pinauth-answer-wrong")
                        vio(f"{what}", f"pinauth answered {data}, the model says {exp} (failed attempts before: {failed_before}, pin {'right' if pin_ok else 'wrong'}, cookie trust {trust})")
                    issued = [c for c in setcookies if c.startswith(dbg.pin_cookie_name + "=") and "|" in c.split(";")[0]]
                    if bool(issued) != bool(data.get("auth")):
                        vio("pin-cookie-issued-iff-auth-violated", f"auth {data.get('auth')} but Set-Cookie {setcookies}")
                    if issued:
                        val = issued[0].split(";")[0].split("=", 1)[1].strip('"')
                        st["jar"] = val
                        st["jar_issued"] = int(now_at_start)  # the lifetime runs from the moment of the successful authentication
                        if model_trust(val) is not True:
                            vio("issued-cookie-not-valid", f"{val!r}")
            if kind == "resource" and status not in (200, 304):
                vio("resource-not-served", f"status {status}")

        def advance(spec, trust):
            """Advance the model's failed counter for a pinauth that reaches pin_auth on a trusted host."""
            if spec.get("kind") != "pinauth" or spec.get("secret", "right") != "right":
                return
            hv = HOSTS[spec.get("host", 0) % len(HOSTS)][1] if isinstance(spec.get("host"), int) else True
            if hv is not True:
                st["host_unknown"] = hv is None
                return
            pin_ok = spec.get("pin") in ("right", "right_nodash", "right_spaces")
            if trust is None:
                st["failed"] += 1
            elif trust:
                pass
            elif st["failed"] > 10:
                pass
            elif pin_ok:
                st["failed"] = 0
            else:
                st["failed"] += 1

        nreq = 0
        for step in case.get("steps", []):
            if out.violations:
                break
            if not isinstance(step, list) or not step:
                continue
            if step[0] == "clock":
                d = step[1] if len(step) > 1 and isinstance(step[1], (int, float)) else 0
                clock.now += d
                out.fault("clock_jump_backwards" if d < 0 else "clock_jump_forwards")
                st["dependent"] = True
                tr.add("clock", d)
            elif step[0] == "set_pin":
                # the application changes the PIN while the process runs: cookies issued for the previous PIN are stale from now on
                if not pin_on:
                    continue
                dbg_ = st["dbg"]
                dbg_.pin_cookie_name  # noqa: B018  (the getter computes name and PIN on first use and would overwrite an earlier assignment)
                st["pin"] = ALT_PIN if st["pin"] == PIN else PIN
                dbg_.pin = st["pin"]
                st["dependent"] = True
                out.probe("pin_changed_at_run_time")
                tr.add("set_pin")
            elif step[0] == "restart":
                new_instance()
                out.fault("process_restart")
                st["dependent"] = True
                tr.add("restart", st["instance"])
            elif step[0] == "req" and len(step) > 1 and isinstance(step[1], dict):
                spec = step[1]
                if isinstance(spec.get("host"), int) and HOSTS[spec["host"] % len(HOSTS)][1] is None and spec.get("kind") == "pinauth" and spec.get("secret", "right") == "right":
                    continue  # either verdict is acceptable for this host: the counter would be unknowable afterwards
                if not pin_on and spec.get("kind") == "pinauth":
                    continue  # PIN authentication with the PIN switched off is outside the statement (observation O2 in DESIGN.md)
                if spec.get("kind") == "pinauth" and spec.get("pin") == "absent" and not (st["failed"] > 10 and spec.get("cookie", "absent") == "absent"):
                    continue  # a pinauth request without its pin parameter is only defined once the attempts are exhausted
                cval = cookie_value(spec.get("cookie", "absent"))
                trust = model_trust(cval)
                if spec.get("cookie") == "jar" and cval is not None and pin_on and trust is not None:
                    # a cookie the debugger issued itself is judged by when it was issued, not by what its text claims
                    trust = (clock.now - PIN_TIME) < st.get("jar_issued", 0)
                failed_before = st["failed"]
                calls_before = len(spy_calls)
                now0 = clock.now
                try:
                    result = call(spec)
                except Exception as e:  # noqa: BLE001
                    vio(f"request-raises/{type(e).__name__}/kind={spec.get('kind')}", f"{type(e).__name__}: {e} for {spec} host {HOSTS[spec.get('host', 0) % len(HOSTS)][0] if isinstance(spec.get('host'), int) else None!r}")
                    break
                advance(spec, trust)
                nreq += 1
                if spec.get("cookie") == "jar" and st["jar"] or failed_before:
                    st["dependent"] = True
                tr.add("req", sorted(spec.items()), "->", result[0], "spy", len(spy_calls) - calls_before, "failed", st["failed"])
                judge(spec, result, calls_before, failed_before, trust, now0)
                real_failed = getattr(getattr(st["dbg"], "_failed_pin_auth", None), "value", None)
                if real_failed is not None and real_failed != st["failed"] and not out.violations:
                    vio("failed-attempt-counter-differs-from-model", f"counter {real_failed}, model {st['failed']} after {spec}")
            elif step[0] == "concurrent" and len(step) > 1 and isinstance(step[1], list):
                self.concurrent(step[1], case, st, clock, call, model_trust, advance, judge, spy_calls, out, tr, vio)
                st["dependent"] = True
        out.steps = nreq
        out.nontrivial = st["dependent"] and nreq > 1

    def concurrent(self, pins, case, st, clock, call, model_trust, advance, judge, spy_calls, out, tr, vio) -> None:
        """Several pinauth attempts in real threads.  Every line of werkzeug/debug/__init__.py and the simulated sleep
        are pre-emption points, so an attempt can be suspended between its lockout check and its counter update.  The
        attempts overlap, hence no order among them is prescribed: the outcome must be explainable by *some* sequential
        order of the attempts (linearizability against the sequential PIN model), including the final counter."""
        import itertools
        import json as _json

        baton = Baton(Tape(case.get("tape")), trace_suffixes=("werkzeug/debug/__init__.py",))
        baton.add_controller("ctl")
        results: dict[int, tuple] = {}
        pins = [p for p in pins if p in ("right", "wrong", "stale")][:6]  # "stale": a cookie issued for another PIN
        if not pins or os.environ.get("WERKZEUG_DEBUG_PIN") == "off":
            return
        me = threading.local()

        def on_sleep():
            key = getattr(me, "key", None)
            if key is not None:
                baton.yield_any(key)

        clock.on_sleep = on_sleep
        lock = st["dbg"]._failed_pin_auth.get_lock()
        lock.baton, lock.me = baton, me
        start_failed = st["failed"]
        now0 = clock.now

        def worker(i, pin):
            def body():
                me.key = f"a{i}"
                spec = {"kind": "pinauth", "secret": "right", "host": 0, "cookie": "wrong_hash" if pin == "stale" else "absent", "frame": "known", "pin": "wrong" if pin == "stale" else pin}
                baton.tracing.add(me.key)
                try:
                    results[i] = (spec, call(spec))
                finally:
                    baton.tracing.discard(me.key)

            return body

        try:
            for i, pin in enumerate(pins):
                baton.spawn(f"a{i}", worker(i, pin))
            baton.run_until_done("ctl")
            baton.join_all()
        finally:
            clock.on_sleep = None
            lock.baton = lock.me = None
        if baton.errors:
            e = baton.errors[0][1]
            if isinstance(e, HarnessError):
                raise e
            vio(f"request-raises/{type(e).__name__}/kind=pinauth-concurrent", f"{type(e).__name__}: {e}")
            return
        if lock.contended:
            out.fault("counter_lock_contended", lock.contended)
        out.fault("preempted_inside_sleep_or_between_lines", baton.switches)
        out.fault("preemption_point_inside_debugger", baton.preempt_lines)
        out.probe("concurrent_attempts", len(pins))
        observed = {}
        for i, (spec, result) in results.items():
            try:
                data = _json.loads(result[2])
                observed[i] = (bool(data.get("auth")), bool(data.get("exhausted")))
            except ValueError:
                vio("pinauth-response-not-json", f"status {result[0]} body {result[2][:80]!r}")
                return
        real_failed = getattr(getattr(st["dbg"], "_failed_pin_auth", None), "value", None)

        def step(counter, pin):
            if pin == "stale":
                return (False, False), counter + 1  # counted as a failure before anything else is looked at
            if counter > 10:
                return (False, True), counter
            if pin == "right":
                return (True, False), 0
            return (False, False), counter + 1

        found = None
        for perm in itertools.permutations(range(len(pins))):
            c = start_failed
            ok = True
            for i in perm:
                exp, c = step(c, pins[i])
                if observed.get(i) != exp:
                    ok = False
                    break
            if ok and (real_failed is None or real_failed == c):
                found = (perm, c)
                break
        tr.add("concurrent", pins, "observed", [observed.get(i) for i in range(len(pins))], "counter", start_failed, "->", real_failed, "order", found[0] if found else None)
        if found is None:
            vio("concurrent-pin-attempts-not-linearizable", f"{len(pins)} overlapping attempts {pins} from counter {start_failed} were answered {[observed.get(i) for i in range(len(pins))]} and left the counter at {real_failed}: no sequential order of the attempts gives that")
            return
        perm, c = found
        # let the ordinary per-request judge look at each response (cookies), in the explaining order
        cc = start_failed
        for i in perm:
            spec, result = results[i]
            st["failed"] = step(cc, pins[i])[1]
            judge(spec, result, len(spy_calls), cc, None if pins[i] == "stale" else model_trust(None), now0)
            cc = st["failed"]
        st["failed"] = c


# ---------------------------------------------------------------------------
# host validation (a pure function: workload - it rides along because the gates call it)

LABELS = ["localhost", "example", "com", "evil", "a", "sub", "xn--nxasmq6b", "b\xfccher", "", "a" * 64, "127", "0", "1", "LOCALHOST", "exa mple", "-x", "x_y"]
TRUSTED_LISTS = [["", "example.com"], ["http://example.com", ".a.test"], [" b.test", "b.test"], ["*", ".example.com"], [".localhost", "127.0.0.1"], [".a.test", "b.test"], ["b.test", ".a.test"], ["example.com"], [".example.com"], ["example.com:8080"], [".com"], ["b\xfccher.example"], ["localhost"], [], ["127.0.0.1", "[::1]"], [".a." + "b" * 70]]


class HostValidation(Scenario):
    pid = "C20"
    name = "c20_host_validation"
    cases = {"quick": 60000, "thorough": 1000000}
    chunk = 1000
    real = "werkzeug.sansio.utils.host_is_trusted / get_host, Request.host with trusted_hosts"
    stubs = "label-grammar workload (a pure function: seeded input generation only)"
    rule = "workload clause; non-trivial = host and trusted list both non-empty; distinct = (host, trusted list)"

    def generate(self, rng: random.Random, tier: str) -> dict:
        k = rng.randrange(9)
        trusted = rng.choice(TRUSTED_LISTS)
        if k >= 7 and trusted:
            # derived from the list itself: a subdomain, a look-alike or the exact name of one of its entries
            ref = rng.choice(trusted)
            bare = ref[1:] if ref.startswith(".") else ref
            host = rng.choice(["evil." + bare, "a.b." + bare, "evil" + bare, bare + ".evil.com", bare, bare.upper(), bare + ":8080", "x-" + bare,
                               # a listed name with something other than a port behind it, or inside text that is no host name
                               bare + "8080", bare + ":80@evil.com", bare + ":@evil.com", bare + "@evil.com", bare + ":x", bare + "evil.com", bare + ".evil.com:80", bare + " evil.com",
                               "evil.com x." + bare, "evil.com/." + bare, "evil.com, x." + bare, "evil.com#." + bare, "evil.com?." + bare, "evil.com\t." + bare, "evil.com@" + bare])
            return self.with_server(rng, {"host": host, "trusted": trusted, "scheme": rng.choice(["http", "https"])})
        if k == 0:
            host = rng.choice([h for h, _ in HOSTS if h is not None])
        elif k == 1:
            host = rng.choice(["127.0.0.1", "127.0.0.1:80", "127.0.0.2", "[::1]", "[::1]:80", "[::2]", "[fe80::1]:80", "::1", "0x7f.1", "2130706433", "127.1"])
        else:
            host = ".".join(rng.choice(LABELS) for _ in range(rng.choice([1, 2, 2, 3, 4])))
            if rng.random() < 0.3:
                host += rng.choice([":80", ":8080", ":", ":abc", ":443"])
        case = {"host": host, "trusted": trusted, "scheme": rng.choice(["http", "https"])}
        return self.with_server(rng, case)

    @staticmethod
    def with_server(rng: random.Random, case: dict) -> dict:
        # the server's own name is usually one the list admits; a Host header that is present (even empty) still wins over it
        tl = case["trusted"]
        bare = [r[1:] if r.startswith(".") else r for r in tl]
        case["server"] = rng.choice(bare) if bare and rng.random() < 0.7 else "srv"
        if rng.random() < 0.04:
            case["host"] = rng.choice(["", "", " ", ":80", "."])
        return case

    def execute(self, case: dict) -> Outcome:
        from werkzeug.exceptions import SecurityError
        from werkzeug.sansio.utils import get_host
        from werkzeug.sansio.utils import host_is_trusted
        from werkzeug.wrappers import Request

        out = Outcome()
        tr = Trace()
        pre = f"{self.pid}/{self.name}"
        host = str(case.get("host", ""))
        trusted = [str(x) for x in case.get("trusted", []) if isinstance(x, str)]
        try:
            verdict = host_is_trusted(host, trusted)
        except Exception as e:  # noqa: BLE001
            out.violate(f"{pre}/host_is_trusted-raises/{type(e).__name__}", f"host {host!r} against {trusted}: {type(e).__name__}: {e}")
            verdict = None
        tr.add("host", host, trusted, "->", verdict)
        if verdict:
            if not self.admits(host, trusted):
                out.violate(f"{pre}/accepted-host-not-listed", f"host {host!r} was accepted against {trusted}")
        elif verdict is False and self.must_admit(host, trusted):
            out.violate(f"{pre}/listed-host-refused", f"host {host!r} was refused against {trusted}")
        server = str(case.get("server", "srv")).partition(":")[0] or "srv"
        for name, f in (
            ("get_host", lambda: get_host(case.get("scheme", "http"), host, None, trusted)),
            ("get_host-with-server", lambda: get_host(case.get("scheme", "http"), host, (server, 8080), trusted)),
            ("Request.host", lambda: self.request_host(Request, host, trusted, server)),
        ):
            try:
                got = f()
                if verdict is False:
                    out.violate(f"{pre}/{name}-returns-untrusted-host", f"{got!r} for host {host!r} against {trusted}")
            except SecurityError:
                if verdict is True:
                    out.violate(f"{pre}/{name}-refuses-trusted-host", f"host {host!r} against {trusted}")
            except Exception as e:  # noqa: BLE001
                out.violate(f"{pre}/{name}-raises/{type(e).__name__}", f"host {host!r} against {trusted}: {type(e).__name__}: {e}")
        out.digest = tr.digest()
        out.trace = tr.events
        out.nontrivial = bool(host) and bool(trusted)
        out.key = repr((host, trusted))
        out.config = "workload"
        return out

    @staticmethod
    def request_host(Request, host, trusted, server="srv"):
        class R(Request):
            trusted_hosts = trusted

        return R({"REQUEST_METHOD": "GET", "HTTP_HOST": host, "wsgi.url_scheme": "http", "SERVER_NAME": server, "SERVER_PORT": "80", "PATH_INFO": "/", "SCRIPT_NAME": "", "QUERY_STRING": ""}).host

    @staticmethod
    def norm(name: str) -> str | None:
        """The host without its port, in ASCII lower case - or None when the text is not host[:port] at all: whatever
        follows the name must be a colon and digits, and the name consists of letters, digits, hyphens, underscores and
        dots (after IDNA) or is a bracketed address literal."""
        import re

        if name.startswith("["):
            end = name.find("]")
            if end > 0:
                if not re.fullmatch(r"(:[0-9]*)?", name[end + 1 :]):
                    return None
                return name[: end + 1].lower()
        name, colon, port = name.partition(":")
        if colon and not re.fullmatch(r"[0-9]*", port):
            return None
        try:
            name = name.encode("idna").decode("ascii").lower()
        except UnicodeError:
            return None
        if not re.fullmatch(r"[a-z0-9._-]+", name):
            return None
        return name

    def admits(self, host: str, trusted: list[str]) -> bool:
        """Reference: port aside, equal to a listed name or a true subdomain of a dot-prefixed entry (IDNA, case-insensitive)."""
        h = self.norm(host)
        if not h:
            return False
        for ref in trusted:
            dot = ref.startswith(".")
            r = self.norm(ref[1:] if dot else ref)
            if not r:
                continue
            if h == r or (dot and h.endswith("." + r) and len(h) > len(r) + 1):
                return True
        return False

    def must_admit(self, host: str, trusted: list[str]) -> bool:
        """Exactly a listed name, spelled the same (no port, ASCII lower case): refusing it would make the list useless."""
        return bool(host) and self.norm(host) is not None and host.isascii() and host == host.lower() and ":" not in host and all(0 < len(p) < 64 for p in host.split(".")) and any(host == (r[1:] if r.startswith(".") else r) for r in trusted)


SCENARIOS = [DebuggerGates(), HostValidation()]
