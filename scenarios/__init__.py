"""Scenario registry: property id -> list of scenario instances."""
import importlib

_MODULES = [
    "c01_chunking",
    "c02_pipeline",
    "c05_wsgi_output",
    "c07_hostile",
    "c08_containers",
    "c09_body_stream",
    "c10_limits",
    "c11_conditional",
    "c16_views",
    "c18_locals",
    "c19_devserver",
    "c20_gates",
]

REGISTRY: dict = {}
for _m in _MODULES:
    mod = importlib.import_module(f"scenarios.{_m}")
    for s in mod.SCENARIOS:
        REGISTRY.setdefault(s.pid, []).append(s)
