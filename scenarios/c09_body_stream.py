"""C09 - the request body stream never over-reads, truncates or hangs.

System under test: real ``LimitedStream`` / ``get_input_stream`` (optionally
under a real ``io.BufferedReader`` / ``io.TextIOWrapper``).  Simulated: the
server's input stream (fragmentation decided by the tape, early EOF, OSError
at call *i*), the application's read pattern.
"""
from __future__ import annotations

import io
import random

from dsim.core import Outcome
from dsim.core import Scenario
from dsim.core import SimHang
from dsim.core import Tape
from dsim.core import Trace
from dsim.core import b2s
from dsim.core import s2b
from dsim.streams import SimStream
from dsim.streams import SimStreamInto

ALPHA = [b"a", b"b", b"\n", b"\r", b"\r\n", b"xyz", b"\x00", b"\xff", b"line\n"]


def gen_data(rng: random.Random, n: int) -> bytes:
    out = bytearray()
    while len(out) < n:
        out += rng.choice(ALPHA)
    return bytes(out[:n])


def gen_tape(rng: random.Random, n: int) -> list[int]:
    style = rng.randrange(5)
    if style == 0:
        return []  # trivial schedule: every read is served in full
    if style == 1:
        return [1] * n  # one byte at a time
    if style == 2:
        return [rng.choice([0, 0, 0, 1, 2, 3]) for _ in range(n)]
    if style == 3:
        return [rng.randrange(0, 9) for _ in range(n)]
    return [rng.choice([0, 1, 2, 5, 17, 64, 1000]) for _ in range(n)]


OPS_RAW = ["read", "read", "read_all", "readline", "readline_n", "readlines", "readlines_hint", "readinto", "readinto_mv", "next", "exhaust"]
OPS_BUF = ["read", "read", "read_all", "readline", "readline_n", "readlines", "readlines_hint", "readinto", "readinto_mv", "readinto1", "read1", "peek", "next"]
OPS_TXT = ["read", "read", "read_all", "readline", "readline_n", "readlines", "next"]


class BodyStream(Scenario):
    pid = "C09"
    name = "c09_limited_stream"
    cases = {"quick": 160000, "thorough": 2000000}
    chunk = 2000
    real = "werkzeug.wsgi.LimitedStream (+ stdlib io.BufferedReader / io.TextIOWrapper on top of it)"
    stubs = "underlying server input stream (SimStream), the application's read pattern"
    rule = (
        "non-trivial = at least one operation reached the underlying stream and the body is non-empty; "
        "distinct = (wrapper, mode, readinto?, limit-vs-length class, fault plan shape, operation-kind sequence, schedule style)"
    )

    def generate(self, rng: random.Random, tier: str) -> dict:
        big = tier == "thorough" and rng.random() < 0.002
        if big:
            n = rng.choice([65535, 65536, 65537, 70000, 131073])
        else:
            n = rng.choice([0, 1, 2, 3, 5, 8, 13, 21, 40, 64]) if rng.random() < 0.7 else rng.randrange(0, 200)
        data = gen_data(rng, n)
        rel = rng.randrange(8)
        if rel == 0:
            limit = n
        elif rel == 1:
            limit = max(0, n - rng.randrange(1, 4))
        elif rel == 2:
            limit = n + rng.randrange(1, 4)
        elif rel == 3:
            limit = rng.randrange(0, n + 1)
        elif rel == 4:
            limit = n + rng.randrange(1, 100)
        elif rel == 5:
            limit = 0
        else:
            limit = n
        wrap = rng.choice(["raw", "raw", "buffered", "buffered", "text"])
        ops_pool = {"raw": OPS_RAW, "buffered": OPS_BUF, "text": OPS_TXT}[wrap]
        nops = rng.randrange(1, 13)
        ops = []
        for _ in range(nops):
            k = rng.choice(ops_pool)
            arg = rng.choice([1, 1, 2, 3, 4, 7, 16, 100, max(1, n), max(1, limit), n + 5, 70000 if big else 9])
            ops.append([k, arg])
        faults = rng.random() < 0.3
        fail_at = []
        if faults and rng.random() < 0.6:
            fail_at = sorted({rng.randrange(0, 12) for _ in range(rng.choice([1, 1, 2]))})
        return {
            "data": b2s(data),
            "limit": limit,
            "is_max": rng.random() < 0.45,
            "wrap": wrap,
            "bufsize": rng.choice([1, 2, 3, 4, 8, 16, 64, 8192]),
            "chunk_size": rng.choice([1, 2, 7, 32, 8192]),
            "readinto": rng.random() < 0.6,
            "fail_at": fail_at,
            "max_read": rng.choice([0, 0, 0, 1, 3, 10]),
            "error": rng.choice(["oserror", "oserror", "timeout", "reset", "broken_pipe"]),
            "tape": gen_tape(rng, 40 if not big else 200),
            "ops": ops,
        }

    # ------------------------------------------------------------------
    def build(self, case: dict, sim):
        from werkzeug.wsgi import LimitedStream

        ls = LimitedStream(sim, int(case["limit"]), is_max=bool(case["is_max"]))
        return ls, int(case["limit"]), bool(case["is_max"])

    def make_sim(self, case: dict):
        cls = SimStreamInto if case.get("readinto") else SimStream
        return cls(
            s2b(case["data"]),
            Tape(case.get("tape")),
            fail_at=[int(x) for x in case.get("fail_at", [])],
            max_read=int(case.get("max_read", 0) or 0),
            error=case.get("error", "oserror") if case.get("error") in ("oserror", "timeout", "reset", "broken_pipe") else "oserror",
        )

    def execute(self, case: dict) -> Outcome:
        out = Outcome()
        tr = Trace()
        sim = self.make_sim(case)
        built = self.build(case, sim)
        if built is None:  # decided by the subclass (e.g. expected 413 / passthrough) and already recorded
            return self.finish(out, tr, case, sim)
        if isinstance(built, Outcome):
            return built
        ls, limit, is_max = built
        drive(self.pid, self.name, case, sim, ls, limit, is_max, out, tr)
        return self.finish(out, tr, case, sim)

    def finish(self, out: Outcome, tr: Trace, case: dict, sim) -> Outcome:
        out.digest = tr.digest()
        out.trace = tr.events
        out.steps = sim.calls
        if sim.short_reads:
            out.fault("short_read", sim.short_reads)
        if sim.faults_fired:
            out.fault("oserror_on_read", sim.faults_fired)
        return out


def drive(pid, sname, case, sim, ls, limit, is_max, out: Outcome, tr: Trace) -> None:
    """Drive the wrapper with the case's operations, checking the monitors
    after every step."""
    from werkzeug.exceptions import ClientDisconnected
    from werkzeug.exceptions import RequestEntityTooLarge

    data = sim.data
    target = data[:limit]
    wrap = case.get("wrap", "raw")
    if wrap == "buffered":
        w = io.BufferedReader(ls, buffer_size=max(1, int(case.get("bufsize", 16))))
    elif wrap == "text":
        br = io.BufferedReader(ls, buffer_size=max(1, int(case.get("bufsize", 16))))
        w = io.TextIOWrapper(br, encoding="latin-1", newline="\n")
        w._CHUNK_SIZE = max(1, int(case.get("chunk_size", 8192)))
    else:
        wrap = "raw"
        w = ls
    text = wrap == "text"
    mode = "max" if is_max else "cl"
    tr.add("setup", wrap, mode, f"len={len(data)} limit={limit} readinto={hasattr(sim, 'readinto')} fail_at={sorted(sim.fail_at)}")

    def vio(kind: str, msg: str) -> None:
        out.violate(f"{pid}/{sname}/{kind}", msg)

    yielded = bytearray()
    broken = False
    cached = None
    kinds = []
    reached = False
    for op in case.get("ops", []):
        try:
            kind, arg = op[0], max(1, int(op[1]))
        except (TypeError, ValueError, IndexError):
            continue
        c0, p0, e0, f0 = sim.calls, sim.pos, sim.eof_calls, sim.faults_fired
        got = None  # bytes consumed by this op
        eof = False
        peeked = None
        exc = None
        try:
            if kind == "read":
                r = w.read(arg)
                got = r
                eof = len(r) == 0
            elif kind == "read_all":
                r = w.read() if arg % 2 else w.read(-1)
                got = r
                eof = True
            elif kind == "readline":
                r = w.readline()
                got = r
                eof = not r.endswith("\n" if text else b"\n")
            elif kind == "readline_n":
                r = w.readline(arg)
                got = r
                eof = len(r) == 0
            elif kind == "readlines":
                r = w.readlines()
                got = ("" if text else b"").join(r)
                eof = True
            elif kind == "readlines_hint" and not text:
                r = w.readlines(arg)
                got = b"".join(r)
                eof = len(r) == 0
            elif kind in ("readinto", "readinto_mv", "readinto1") and not text:
                buf = bytearray(arg)
                tgt = memoryview(buf) if kind == "readinto_mv" else buf
                if kind == "readinto1" and wrap == "buffered":
                    n = w.readinto1(tgt)
                else:
                    n = w.readinto(tgt)
                n = n or 0
                got = bytes(buf[:n])
                eof = n == 0
                if n > arg:
                    vio("readinto-overflow", f"readinto returned {n} for a buffer of {arg}")
            elif kind == "read1" and wrap == "buffered":
                r = w.read1(arg)
                got = r
                eof = len(r) == 0
            elif kind == "peek" and wrap == "buffered":
                peeked = w.peek(arg)
            elif kind == "next":
                try:
                    got = next(w)
                except StopIteration:
                    got = "" if text else b""
                    eof = True
            elif kind == "exhaust" and wrap == "raw":
                got = ls.exhaust()
                eof = True
            elif kind == "get_data" and wrap == "raw" and getattr(ls, "_verif_request", None) is not None:
                req = ls._verif_request
                will_cache = bool(arg % 2) or arg % 4 >= 2
                got = req.get_data(cache=bool(arg % 2)) if arg % 4 < 2 else req.data
                eof = True
                kind = "read_all"  # judged like any other unbounded read
                if cached is not None:
                    # a body that was read and cached is handed out again, not read again
                    if got != cached or sim.calls != c0:
                        vio("cached-body-changed", f"get_data() after a cached read returned {got[:40]!r}, the cached body is {cached[:40]!r} ({sim.calls - c0} further calls on the input)")
                        break
                    kinds.append("get_data_cached")
                    continue
                if will_cache:
                    cached = got
            else:
                continue
        except (ClientDisconnected, RequestEntityTooLarge) as e:
            exc = e
        except SimHang as e:
            vio(f"endless-read/op={kind}/wrap={wrap}", str(e))
            tr.add("op", kind, arg, "HANG")
            break
        except Exception as e:  # noqa: BLE001
            exc = e
        kinds.append(kind)
        if text and got is not None:
            got = got.encode("latin-1")
        dc, dp = sim.calls - c0, sim.pos - p0
        hit_eof = sim.eof_calls > e0
        fault = sim.faults_fired > f0
        if dc:
            reached = True
        tr.add("op", kind, arg, "->", type(exc).__name__ if exc else (got if got is not None else peeked), f"calls+{dc} bytes+{dp}", "eof" if hit_eof else "", "fault" if fault else "")

        # ---- monitors ---------------------------------------------------
        if sim.pos > limit:
            vio(f"over-read/mode={mode}", f"{sim.pos} bytes taken from the server input, limit {limit} (op {kind})")
            break
        if dc > dp + 4:
            vio(f"call-budget/op={kind}/wrap={wrap}", f"{dc} calls on the underlying stream for {dp} bytes")
            break
        if exc is not None and not isinstance(exc, (ClientDisconnected, RequestEntityTooLarge)):
            vio(f"unexpected-exception/{type(exc).__name__}/op={kind}/wrap={wrap}", f"{type(exc).__name__}: {exc}")
            break
        pos = getattr(ls, "_pos", None)
        if pos is not None and pos != sim.pos:
            vio("position-drift", f"LimitedStream._pos={pos} but {sim.pos} bytes were taken from the input (op {kind}, wrap {wrap})")
            break
        if exc is not None:
            if isinstance(exc, ClientDisconnected):
                if not (fault or (not is_max and hit_eof and sim.pos < limit)):
                    vio(f"spurious-disconnect/mode={mode}/op={kind}", f"ClientDisconnected without EOF-before-limit or I/O error (taken {sim.pos}, limit {limit})")
                    break
                out.probe("client_disconnected")
            elif isinstance(exc, RequestEntityTooLarge):
                if not (is_max and sim.pos >= limit):
                    vio(f"spurious-413/mode={mode}/op={kind}", f"RequestEntityTooLarge with {sim.pos} of {limit} bytes taken")
                    break
                out.probe("too_large_raised")
            else:
                vio(f"unexpected-exception/{type(exc).__name__}/op={kind}/wrap={wrap}", f"{type(exc).__name__}: {exc}")
                break
            broken = True
            continue
        # no exception
        if fault:
            vio(f"io-error-swallowed/op={kind}/wrap={wrap}", "an OSError from the underlying stream did not surface as ClientDisconnected")
            break
        if not is_max and hit_eof and sim.pos < limit:
            vio(f"disconnect-swallowed/op={kind}/wrap={wrap}", f"the input ended after {sim.pos} of {limit} declared bytes and no ClientDisconnected was raised")
            break
        if broken:
            # after a reported failure a later call may fail again or carry on, but it may not announce a complete body
            if eof and not is_max and wrap == "raw" and sim.pos < limit:
                vio(f"end-of-body-after-error/op={kind}", f"after an earlier failure {kind} returned normally as if the body were complete; {sim.pos} of {limit} declared bytes were taken")
                break
            continue
        if peeked is not None:
            rest = target[len(yielded) :]
            if not rest.startswith(bytes(peeked)):
                vio(f"wrong-data/op=peek/wrap={wrap}", f"peek returned {bytes(peeked)[:40]!r}, expected a prefix of {rest[:40]!r}")
                break
            continue
        yielded += got
        if len(yielded) > limit:
            vio(f"over-yield/mode={mode}", f"{len(yielded)} bytes yielded, limit {limit}")
            break
        if not target.startswith(bytes(yielded)):
            vio(f"wrong-data/op={kind}/wrap={wrap}", f"yielded {bytes(yielded)[-40:]!r} is not a prefix of what was sent")
            break
        if eof:
            out.probe("eof_signalled")
            if not is_max:
                if len(yielded) != limit:
                    vio(f"silent-truncation/mode=cl/op={kind}/wrap={wrap}", f"end of stream signalled after {len(yielded)} of {limit} declared bytes")
                    break
            elif kind in ("read_all", "readlines", "exhaust") and len(data) > limit and sim.pos >= limit:
                # an unbounded read claims "everything up to the end"; the body is longer than the maximum and no error was raised
                vio("unbounded-read-silently-truncated-at-maximum", f"{kind}() returned the first {len(yielded)} bytes of a {len(data)}-byte body (maximum {limit}) without RequestEntityTooLarge (wrap {wrap})")
                # (recorded finding L2) keep checking the rest of the history
            elif sim.pos < limit and bytes(yielded) != data:
                vio(f"silent-truncation/mode=max/op={kind}/wrap={wrap}", f"end of stream signalled after {len(yielded)} of {len(data)} bytes (maximum {limit})")
                break
    lim_class = "eq" if limit == len(data) else ("lt" if limit < len(data) else "gt")
    out.key = f"{sname}|{wrap}|{mode}|{hasattr(sim, 'readinto')}|{lim_class}|{len(sim.fail_at)}|{','.join(kinds)}|{len(case.get('tape', []))}|{case.get('max_read')}"
    out.nontrivial = reached and len(data) > 0
    faulty = bool(sim.fail_at) or (not is_max and len(data) < limit)
    out.config = "fault-injecting" if faulty else "fault-free"
    if len(data) < limit and not is_max:
        out.fault("early_eof_before_declared_length")
    if wrap != "raw" and sim.short_reads:
        out.probe("short_read_under_buffer")
    if is_max and len(data) > limit:
        out.probe("body_longer_than_maximum")


# ---------------------------------------------------------------------------
# get_input_stream: decision table x driven stream


CL_VALUES = [None, "valid", "valid_ws", "zero", "-5", "abc", "٥", "+3", "1_0", "", " ", "3.0", "0x3"]


def ref_content_length(cl: str | None, te: str | None) -> int | None:
    """Reference: Content-Length as an HTTP server may trust it - plain ASCII
    digits (optional surrounding blanks); anything else is unusable and counts
    as 0; chunked transfer coding or no header means "streaming"."""
    if te == "chunked" or cl is None:
        return None
    s = cl.strip()
    neg = s.startswith("-")
    digits = s[1:] if neg else s
    if digits and all(c in "0123456789" for c in digits):
        return 0 if neg else int(digits)
    return 0


class InputStream(BodyStream):
    name = "c09_get_input_stream"
    cases = {"quick": 80000, "thorough": 1000000}
    real = "werkzeug.wsgi.get_input_stream, get_content_length, LimitedStream"
    stubs = "the WSGI environ, wsgi.input (SimStream), the application's read pattern"
    rule = (
        "non-trivial = the returned stream was driven and reached the underlying input; distinct = (CONTENT_LENGTH form, "
        "Transfer-Encoding, input_terminated, max_content_length class, safe_fallback, wrapper, operation kinds)"
    )

    def generate(self, rng: random.Random, tier: str) -> dict:
        case = super().generate(rng, "quick")
        n = len(case["data"])
        clk = rng.choice(CL_VALUES)
        declared = rng.choice([n, n, max(0, n - 2), n + 3, 0])
        if clk == "valid":
            cl = str(declared)
        elif clk == "valid_ws":
            cl = f" {declared} "
        elif clk == "zero":
            cl = "0"
        else:
            cl = clk
        case["content_length"] = cl
        case["transfer_encoding"] = rng.choice([None, None, None, "chunked", "gzip"])
        case["terminated"] = rng.random() < 0.4
        ref = ref_content_length(cl, case["transfer_encoding"])
        base = ref if ref is not None else n
        case["max_content_length"] = rng.choice([None, None, 0, max(0, base - 1), base, base + 1, base + 50, 5])
        case["safe_fallback"] = rng.random() < 0.75
        del case["limit"], case["is_max"]
        return case

    def build(self, case: dict, sim):
        from werkzeug.exceptions import RequestEntityTooLarge
        from werkzeug.wsgi import LimitedStream
        from werkzeug.wsgi import get_input_stream

        out = Outcome()
        tr = Trace()
        environ = {"wsgi.input": sim, "REQUEST_METHOD": "POST"}
        cl = case.get("content_length")
        te = case.get("transfer_encoding")
        if cl is not None:
            environ["CONTENT_LENGTH"] = str(cl)
        if te is not None:
            environ["HTTP_TRANSFER_ENCODING"] = str(te)
        if case.get("terminated"):
            environ["wsgi.input_terminated"] = True
        mcl = case.get("max_content_length")
        mcl = None if mcl is None else int(mcl)
        safe = bool(case.get("safe_fallback", True))
        ref = ref_content_length(None if cl is None else str(cl), te)
        # reference decision
        if ref is not None and mcl is not None and ref > mcl:
            expect = ("413",)
        elif case.get("terminated"):
            expect = ("limited", mcl, True) if mcl is not None else ("raw",)
        elif ref is None:
            expect = ("empty",) if safe else ("raw",)
        else:
            expect = ("limited", ref, False)
        tr.add("environ", f"CL={cl!r} TE={te!r} terminated={bool(case.get('terminated'))} max={mcl} safe={safe}", "expect", expect)
        out.key = f"{self.name}|{cl if cl in CL_VALUES else 'valid'}|{te}|{bool(case.get('terminated'))}|{mcl is None}|{safe}|{expect[0]}|{case.get('wrap')}|{','.join(o[0] for o in case.get('ops', []) if o)}"
        out.config = "fault-injecting" if case.get("fail_at") else "fault-free"

        def vio(kind, msg):
            out.violate(f"{self.pid}/{self.name}/{kind}", msg)

        try:
            stream = self.open_stream(environ, safe, mcl)
        except RequestEntityTooLarge:
            if expect[0] != "413":
                vio("spurious-413-at-open", f"declared length {ref} is within max_content_length {mcl}")
            out.probe("rejected_by_declared_length")
            return self._done(out, tr, sim)
        except Exception as e:  # noqa: BLE001
            vio(f"unexpected-exception-at-open/{type(e).__name__}", f"{type(e).__name__}: {e}")
            return self._done(out, tr, sim)
        if expect[0] == "413":
            vio("declared-length-over-maximum-accepted", f"CONTENT_LENGTH {ref} > max_content_length {mcl} but a stream was returned")
            return self._done(out, tr, sim)
        if expect[0] == "raw":
            # the server terminates its input (or the application opted out of the safe fallback)
            if stream is not sim:
                vio("unexpected-wrapping", f"expected the server's stream itself, got {type(stream).__name__}")
            out.probe("passthrough")
            return self._done(out, tr, sim)
        if expect[0] == "empty":
            try:
                got = stream.read()
            except Exception as e:  # noqa: BLE001
                vio(f"unexpected-exception/{type(e).__name__}/empty-fallback", str(e))
                return self._done(out, tr, sim)
            if got != b"" or sim.calls:
                vio("unterminated-input-read-without-length", f"no usable length and input not terminated, yet {len(got)} bytes were read ({sim.calls} calls on the input)")
            out.probe("empty_fallback")
            # the application closes what it was given; the next request of the same kind gets a usable stream again
            try:
                stream.close()
                again = self.open_stream(dict(environ), safe, mcl)
                if again.read() != b"":
                    vio("unterminated-input-read-without-length/second-request", "the second request's fallback stream is not empty")
            except Exception as e:  # noqa: BLE001
                vio(f"unexpected-exception/{type(e).__name__}/empty-fallback-second-request", f"after the first request closed its empty stream: {type(e).__name__}: {e}")
            return self._done(out, tr, sim)
        _, limit, is_max = expect
        if stream is sim:
            vio("server-input-returned-unwrapped", f"a length of {limit} applies (max mode {is_max}) but the server's own stream was handed out: nothing stops an over-read")
            return self._done(out, tr, sim)
        if not isinstance(stream, LimitedStream):
            # still drive it: behaviour is what matters
            out.probe("not_a_limited_stream")
        drive(self.pid, self.name, case, sim, stream, limit, is_max, out, tr)
        key = out.key
        out.key = key + "|" + f"{cl if cl in CL_VALUES else 'valid'}|{te}|{bool(case.get('terminated'))}|{mcl is None}"
        return self._done(out, tr, sim)

    def _done(self, out, tr, sim):
        return self.finish(out, tr, {}, sim)

    def open_stream(self, environ, safe, mcl):
        from werkzeug.wsgi import get_input_stream

        return get_input_stream(environ, safe_fallback=safe, max_content_length=mcl)


class RequestStream(InputStream):
    """The same decision table and read histories one level up: ``Request.stream`` (and
    ``get_data``) on a Request whose class sets ``max_content_length``."""

    name = "c09_request_stream"
    cases = {"quick": 40000, "thorough": 600000}
    real = "werkzeug.wrappers.Request.stream / get_data -> get_input_stream -> LimitedStream"
    stubs = "the WSGI environ, wsgi.input (SimStream), the application's read pattern"

    def build(self, case: dict, sim):
        return super().build(dict(case, safe_fallback=True), sim)

    def generate(self, rng: random.Random, tier: str) -> dict:
        case = super().generate(rng, tier)
        case["safe_fallback"] = True
        if rng.random() < 0.3:
            # the whole body through Request.get_data(): one unbounded read as far as the application is concerned
            case["ops"] = [["get_data", rng.randrange(4)] for _ in range(rng.choice([1, 1, 2, 3]))]
            case["wrap"] = "raw"
        return case

    def open_stream(self, environ, safe, mcl):
        from werkzeug.wrappers import Request

        class Req(Request):
            max_content_length = mcl

        environ.setdefault("SERVER_NAME", "localhost")
        environ.setdefault("SERVER_PORT", "80")
        environ.setdefault("wsgi.url_scheme", "http")
        req = Req(environ)
        stream = req.stream
        try:
            stream._verif_request = req  # lets the read history call req.get_data()
        except AttributeError:
            pass
        return stream


SCENARIOS = [BodyStream(), InputStream(), RequestStream()]
