"""C02 - form data survives encode -> parse unchanged.

Upload pipeline: a client actor owns the ground truth, encodes it along one of
three real paths (MultipartEncoder driven event by event with tape-chosen Data
event splitting; stream_encode_multipart reading files through short-reading
SimFiles; EnvironBuilder with the boundary pinned through the clock/random
seam), the bytes travel through a fragmenting transport, and the server side
parses them along one of three real paths (sans-io decoder, MultiPartParser,
Request.form/files).  Oracle: conservation against the ground truth.
"""
from __future__ import annotations

import random

from dsim.core import Outcome
from dsim.core import Scenario
from dsim.core import Tape
from dsim.core import Trace
from dsim.core import b2s
from dsim.core import s2b
from dsim.streams import SimFile
from dsim.streams import SimStream
from scenarios.c01_chunking import decode_events
from scenarios.c01_chunking import split

PLAIN = "abcdefghijklmnopqrstuvwxyzABCXYZ0123456789"
PUNCT = " ;=,':*%&+-_.()[]{}<>!?#$^|~/@`"
NONASCII = "éßøñ名前ファイル🐍𝔘 ÿĀ \u0085"
EXOTIC = "\t\x0b\x0c\x00\x7f\x1c"
CTYPES = ["text/plain", "application/octet-stream", "image/png", "text/plain; charset=utf-8", "application/x-custom"]


def gen_name(rng: random.Random, exotic: bool) -> str:
    n = rng.choice([1, 1, 2, 3, 5, 8, 20])
    pools = [PLAIN, PLAIN, PUNCT, NONASCII] + ([EXOTIC] if exotic else [])
    s = "".join(rng.choice(rng.choice(pools)) for _ in range(n))
    # the property's exclusions: double quote, backslash, CR, LF, literal %22
    s = s.replace('"', "").replace("\\", "").replace("\r", "").replace("\n", "")
    while "%22" in s:
        s = s.replace("%22", "%2")
    return s


def gen_text(rng: random.Random) -> str:
    kind = rng.randrange(8)
    if kind == 0:
        return ""
    pools = [PLAIN, PUNCT, NONASCII, '"\\', "\r\n", "\r", "\n", EXOTIC, "-"]
    n = rng.choice([1, 2, 3, 5, 10, 40])
    return "".join(rng.choice(rng.choice(pools)) for _ in range(n))


def gen_file_bytes(rng: random.Random, boundary: bytes) -> bytes:
    kind = rng.randrange(8)
    if kind == 0:
        return b""
    delim = b"\r\n--" + boundary
    atoms = [
        b"a", b"xyz", b"-", b"--", b"\r", b"\n", b"\r\n", b"\r\n\r\n", b"\r\n-", b"\r\n--",
        delim[: rng.randrange(1, len(delim))],
        b"--" + boundary[:-1],
        b"\r\n--" + boundary[:-1] + b"!",
        b"\x00", b"\xff\xfe\x80", b"y" * rng.choice([5, 30, len(boundary) + 12]),
    ]
    n = rng.choice([1, 2, 3, 6, 12, 30])
    out = b"".join(rng.choice(atoms) for _ in range(n))
    needle = b"--" + boundary
    while needle in out:
        i = out.index(needle)
        out = out[:i] + b"-_" + out[i + 2 :]
    return out


def file_bytes(p: dict) -> bytes:
    """A file part's content; ``repeat`` makes large uploads cheap to store in a case (the unit is free of dashes, so
    no delimiter can form at a seam)."""
    unit = s2b(p.get("payload", ""))
    rep = p.get("repeat", 1)
    rep = max(1, min(5000, rep)) if isinstance(rep, int) else 1
    return unit * rep if rep > 1 and b"-" not in unit else unit


def grouped(pairs: list[tuple]) -> list[tuple]:
    """Order in which a MultiDict iterates (key first-insertion order, values per key in order)."""
    order: list = []
    groups: dict = {}
    for p in pairs:
        k = p[0]
        if k not in groups:
            groups[k] = []
            order.append(k)
        groups[k].append(p)
    return [p for k in order for p in groups[k]]


class UploadPipeline(Scenario):
    pid = "C02"
    name = "c02_upload_pipeline"
    cases = {"quick": 120000, "thorough": 2000000}
    chunk = 500
    real = (
        "werkzeug.sansio.multipart.MultipartEncoder/MultipartDecoder, werkzeug.test.stream_encode_multipart/EnvironBuilder, "
        "werkzeug.formparser.MultiPartParser/FormDataParser, werkzeug.wrappers.Request.form/files, LimitedStream"
    )
    stubs = "client actor (ground truth, Data event splitting), SimFile (short file reads), transport (cuts / SimStream short reads), pinned time()/random()"
    rule = "non-trivial = at least one part; distinct = (encode path, decode path, part shapes, event split, transport schedule)"

    def generate(self, rng: random.Random, tier: str) -> dict:
        enc = rng.choice(["encoder", "encoder", "stream", "builder"])
        dec = rng.choice(["decoder", "parser", "request"])
        tm = rng.choice([1700000000.0, 1700000000.25, 12345.678])
        rnd = rng.choice([0.5, 0.123456789, 0.999])
        if enc == "builder":
            boundary = f"---------------WerkzeugFormPart_{tm}{rnd}"
        else:
            n = rng.choice([1, 3, 8, 20, 40, 70])
            boundary = "".join(rng.choice("abcdefghijklmnopqrstuvwxyz0123456789'()+_,-./:=?") for _ in range(n))
            if set(boundary) == {"-"}:
                boundary = boundary[:-1] + "x"
        bb = boundary.encode()
        exotic = rng.random() < 0.15
        parts = []
        for _ in range(rng.choice([0, 1, 1, 2, 2, 3, 5])):
            if rng.random() < 0.5:
                v = gen_text(rng)
                cs = rng.choice([None, None, None, "utf-8", "iso-8859-1", "us-ascii", "utf-16"])
                if cs == "iso-8859-1":
                    v = "".join(c for c in v if ord(c) < 256)
                elif cs == "us-ascii":
                    v = "".join(c for c in v if ord(c) < 128)
                # (after the charset filter: dropping characters can join "--" and the boundary)
                while ("--" + boundary) in v:
                    v = v.replace("--" + boundary, "-")
                parts.append({"kind": "field", "name": gen_name(rng, exotic), "value": v, "charset": cs})
            else:
                data = gen_file_bytes(rng, bb)
                k = rng.choice([0, 0, 1, 2, 4])
                parts.append(
                    {
                        "kind": "file",
                        "name": gen_name(rng, exotic),
                        "filename": gen_name(rng, exotic) if rng.random() < 0.93 else "",
                        "ctype": rng.choice(CTYPES),
                        "payload": b2s(data),
                        "splits": [rng.choice([0, 0, 1, 2, 5, len(data)]) for _ in range(k)],
                        "final_empty": rng.random() < 0.5,
                    }
                )
        if rng.random() < 0.012:
            # file bytes that contain the delimiter behind a bare LF or CR: MIME can carry them (only CRLF--boundary is
            # reserved), the decoder's tolerance for bare line breaks cannot (recorded finding K1)
            nl_ = rng.choice([b"\n", b"\r"])
            parts.append({"kind": "file", "name": gen_name(rng, False), "filename": "k1.bin", "ctype": "application/octet-stream",
                          "payload": b2s(b"first" + nl_ + b"--" + bb + rng.choice([nl_, b"--" + nl_, b" " + nl_]) + b"second"), "splits": [], "final_empty": False, "bare_newline_delimiter": True})
        # repeated names on purpose
        if len(parts) >= 2 and rng.random() < 0.4:
            parts[-1]["name"] = parts[0]["name"]
        big = rng.random() < 0.004
        if big:
            # an upload well beyond the parser's read size and the default in-memory limits, read in full-size pieces
            unit = bytes(rng.choice(b"abcdefghijklmnopqrstuvwxyz0123456789\r\n \x00\xff") for _ in range(rng.choice([97, 256, 1000])))
            parts = parts[:2] + [{"kind": "file", "name": gen_name(rng, False), "filename": "big.bin", "ctype": "application/octet-stream", "payload": b2s(unit), "repeat": rng.choice([520_000, 700_000, 1_100_000]) // len(unit), "splits": [], "final_empty": False}]
            if enc == "encoder":
                enc = "stream"
            dec = rng.choice(["request", "request", "parser"])
        return {
            "enc": enc,
            "dec": dec,
            "boundary": boundary,
            "time": tm,
            "rand": rnd,
            "parts": parts,
            "threshold": rng.choice([1024 * 500, 1024 * 500, 0, 50, 200]),
            "file_tape": [] if rng.random() < 0.4 or big else [rng.choice([0, 1, 2, 3, 10]) for _ in range(30)],
            "cuts": sorted(rng.randrange(1, 400) for _ in range(rng.choice([0, 1, 2, 5, 12]))),
            "bytewise": rng.random() < 0.1 and not big,
            "empties": sorted(rng.randrange(0, 14) for _ in range(rng.choice([0, 0, 1, 2]))),
            "bufsize": rng.choice([1, 2, 5, 16, 64, 1024, 65536]) if not big else 65536,
            "tape": [] if rng.random() < 0.4 or big else [rng.choice([0, 0, 1, 2, 7, 50]) for _ in range(60)],
            "field_split": rng.random() < 0.3,
            # how the application fills the builder: constructor data, in-place adds, or assigning form / files in either order
            "data_first": rng.choice([None, None, None, "bytes", "text"]),
            "file_form": rng.choice(["storage", "storage", "plain"]),
            "builder_form": rng.choice(["ctor", "ctor", "inplace", "assign_form_first", "assign_files_first", "ctor_files_then_assign_form", "ctor_fields_then_assign_files"]),
        }

    # ------------------------------------------------------------------
    def truth(self, case: dict):
        fields, files, seq = [], [], []
        for p in case.get("parts", []):
            if p.get("kind") == "file":
                ctype = str(p.get("ctype", "text/plain"))
                if case.get("enc") == "stream" and case.get("file_form") == "plain" and p.get("filename"):
                    import mimetypes

                    ctype = mimetypes.guess_type(str(p["filename"]))[0] or "application/octet-stream"  # a plain file has no type of its own
                t = (str(p.get("name", "")), str(p.get("filename") or ""), ctype, file_bytes(p))
                files.append(t)
                seq.append(("file", t[0], t[1], t[3]))
            else:
                val = str(p.get("value", ""))
                cs = p.get("charset") if case.get("enc", "encoder") == "encoder" else None
                if cs in ("iso-8859-1", "us-ascii"):
                    val = val.encode(cs, "replace").decode(cs)
                t = (str(p.get("name", "")), val)
                fields.append(t)
                seq.append(("field", t[0], None, t[1].encode(cs if cs in ("iso-8859-1", "us-ascii") else "utf-8", "surrogatepass" if cs not in ("iso-8859-1", "us-ascii") else "strict")))
        return fields, files, seq

    def encode(self, case: dict, out: Outcome, tr: Trace):
        """Returns (body bytes, boundary bytes, environ or None, expected order flag)."""
        from werkzeug.datastructures import FileStorage
        from werkzeug.datastructures import Headers
        from werkzeug.datastructures import MultiDict
        from werkzeug.sansio import multipart as mp
        import werkzeug.test as wt

        enc = case.get("enc", "encoder")
        boundary = str(case.get("boundary", "b")) or "b"
        parts = case.get("parts", [])
        ftape = Tape(case.get("file_tape"))
        if enc == "encoder":
            e = mp.MultipartEncoder(boundary.encode())
            body = bytearray(e.send_event(mp.Preamble(data=b"")))
            nev = 0
            for p in parts:
                if p.get("kind") == "file":
                    hdrs = Headers([("Content-Type", str(p.get("ctype", "text/plain")))])
                    body += e.send_event(mp.File(name=str(p.get("name", "")), filename=str(p.get("filename") or ""), headers=hdrs))
                    data = file_bytes(p)
                    pos = 0
                    for sz in p.get("splits", []):
                        sz = max(0, int(sz)) if isinstance(sz, int) else 0
                        piece = data[pos : pos + sz]
                        pos += len(piece)
                        body += e.send_event(mp.Data(data=piece, more_data=True))
                        nev += 1
                        if not piece:
                            out.probe("empty_data_event_with_more_data")
                    if p.get("final_empty"):
                        if pos < len(data):
                            body += e.send_event(mp.Data(data=data[pos:], more_data=True))
                        body += e.send_event(mp.Data(data=b"", more_data=False))
                    else:
                        body += e.send_event(mp.Data(data=data[pos:], more_data=False))
                    nev += 1
                else:
                    cs = p.get("charset")
                    fh = Headers([("Content-Type", f"text/plain; charset={cs}")]) if cs else Headers()
                    body += e.send_event(mp.Field(name=str(p.get("name", "")), headers=fh))
                    # only the documented safe charsets are honoured; anything else means UTF-8
                    wire = cs if cs in ("iso-8859-1", "us-ascii") else "utf-8"
                    val = str(p.get("value", "")).encode(wire, "replace" if wire != "utf-8" else "surrogatepass")
                    if cs:
                        out.probe("field_with_charset:" + str(cs))
                    if case.get("field_split") and len(val) > 1:
                        body += e.send_event(mp.Data(data=val[:1], more_data=True))
                        body += e.send_event(mp.Data(data=val[1:], more_data=False))
                    else:
                        body += e.send_event(mp.Data(data=val, more_data=False))
            body += e.send_event(mp.Epilogue(data=b""))
            out.fault("data_event_split", nev)
            return bytes(body), boundary.encode(), None, "sequence"
        # the two test-client paths need file objects
        sims = []

        def fs(p):
            sf = SimFile(file_bytes(p), ftape, seekable=True)
            sims.append(sf)
            return FileStorage(sf, filename=str(p.get("filename") or ""), name=str(p.get("name", "")), content_type=str(p.get("ctype", "text/plain")))

        if enc == "stream":
            md = MultiDict()
            plain = case.get("file_form") == "plain"
            for p in parts:
                if p.get("kind") == "file" and plain and p.get("filename"):
                    # an ordinary open file (anything with read() and a name) instead of a FileStorage; its content type
                    # is guessed from the name
                    sf = SimFile(file_bytes(p), ftape, seekable=True)
                    sf.name = str(p["filename"])
                    sims.append(sf)
                    md.add(str(p.get("name", "")), sf)
                    out.probe("plain_file_object_uploaded")
                    continue
                md.add(str(p.get("name", "")), fs(p) if p.get("kind") == "file" else str(p.get("value", "")))
            thr = int(case.get("threshold", 1024 * 500) or 0)
            stream, length, b = wt.stream_encode_multipart(md, use_tempfile=True, threshold=thr, boundary=boundary)
            body = stream.read()
            if not isinstance(stream, type(__import__("io").BytesIO())):
                out.probe("spilled_to_tempfile")
            stream.close()
            if length != len(body):
                out.violate(f"{self.pid}/{self.name}/encoded-length-wrong/enc=stream", f"stream_encode_multipart reported {length} bytes, stream holds {len(body)}")
            out.fault("short_file_read", sum(s.read_calls for s in sims))
            return body, b.encode(), None, "grouped-all"
        # EnvironBuilder: boundary comes from time() and random() - pin both
        old_t, old_r = wt.time, wt.random
        wt.time = lambda: float(case.get("time", 1.0))
        wt.random = lambda: float(case.get("rand", 0.5))
        try:
            # force multipart even without files so the multipart clause is exercised
            ct = None if any(p.get("kind") == "file" for p in parts) else "multipart/form-data"
            how = case.get("builder_form", "ctor")
            order = "grouped-split"
            if how not in ("inplace", "assign_form_first", "assign_files_first", "ctor_files_then_assign_form", "ctor_fields_then_assign_files"):
                data = MultiDict()
                for p in parts:
                    data.add(str(p.get("name", "")), fs(p) if p.get("kind") == "file" else str(p.get("value", "")))
                b = wt.EnvironBuilder(method="POST", data=data, content_type=ct)
            else:
                from werkzeug.datastructures import FileMultiDict

                order = "grouped-separately"
                fm, fl = MultiDict(), FileMultiDict()
                for p in parts:
                    if p.get("kind") == "file":
                        fl.add_file(str(p.get("name", "")), fs(p))
                    else:
                        fm.add(str(p.get("name", "")), str(p.get("value", "")))
                if how == "inplace":
                    b = wt.EnvironBuilder(method="POST", content_type=ct)
                    for k, v in fm.items(multi=True):
                        b.form.add(k, v)
                    for k, v in fl.items(multi=True):
                        b.files.add_file(k, v)
                elif how == "assign_form_first":
                    b = wt.EnvironBuilder(method="POST", content_type=ct)
                    b.form = fm
                    b.files = fl
                elif how == "assign_files_first":
                    b = wt.EnvironBuilder(method="POST", content_type=ct)
                    b.files = fl
                    b.form = fm
                elif how == "ctor_files_then_assign_form":
                    b = wt.EnvironBuilder(method="POST", data=MultiDict(fl.items(multi=True)), content_type=ct)
                    b.form = fm
                else:
                    b = wt.EnvironBuilder(method="POST", data=fm, content_type=ct)
                    b.files = fl
                out.probe("builder_filled_in_steps")
            environ = b.get_environ()
        finally:
            wt.time, wt.random = old_t, old_r
        body = environ["wsgi.input"].read()
        out.fault("short_file_read", sum(s.read_calls for s in sims))
        out.fault("pinned_clock_and_random", 1)
        return body, None, environ, order

    def execute(self, case: dict) -> Outcome:
        out = Outcome()
        tr = Trace()
        pre = f"{self.pid}/{self.name}"
        enc, dec = case.get("enc", "encoder"), case.get("dec", "decoder")
        fields, files, seq = self.truth(case)
        tr.add("pipeline", enc, "->", dec, "parts", [(s[0], s[1], s[2], len(s[3])) for s in seq])
        try:
            body, boundary, environ, order = self.encode(case, out, tr)
        except Exception as e:  # noqa: BLE001
            out.violate(f"{pre}/encode-raises/{type(e).__name__}/enc={enc}", f"{type(e).__name__}: {e}")
            return self.done(out, tr, case, seq)
        if out.violations:
            return self.done(out, tr, case, seq)
        if environ is not None and "multipart/form-data" not in environ.get("CONTENT_TYPE", ""):
            out.violate(f"{pre}/request-not-multipart/enc=builder", f"the builder was given {len(seq)} fields/files but produced CONTENT_TYPE {environ.get('CONTENT_TYPE')!r} with a {len(body)}-byte body")
            return self.done(out, tr, case, seq)
        ctype = environ["CONTENT_TYPE"] if environ else f'multipart/form-data; boundary="{boundary.decode()}"'
        if environ is not None:
            from werkzeug.http import parse_options_header

            boundary = parse_options_header(ctype)[1].get("boundary", "").encode()
            if environ.get("CONTENT_LENGTH") != str(len(body)):
                out.violate(f"{pre}/content-length-wrong/enc=builder", f"CONTENT_LENGTH {environ.get('CONTENT_LENGTH')} but the body is {len(body)} bytes")
        tr.add("encoded", len(body), "boundary", boundary)
        # expected results in the order each encode path defines: the sans-io encoder keeps
        # the event order; the test-client paths iterate a MultiDict (grouped by key over
        # fields and files together) and EnvironBuilder then sends all fields before all files
        full = []  # (kind, name, filename, payload, ctype)
        fi = iter(files)
        fl = iter(fields)
        for s_ in seq:
            full.append(s_ + ((next(fi)[2], None) if s_[0] == "file" else (None, next(fl)[1])))
        if order == "grouped-separately":
            # form and files were filled as two containers: each iterates grouped by its own keys
            full = [x[1:] for kind in ("field", "file") for x in grouped([(x[1],) + x for x in full if x[0] == kind])]
        elif order != "sequence":
            full = [x[1:] for x in grouped([(x[1],) + x for x in full])]
        if order == "grouped-split":
            full = [x for x in full if x[0] == "field"] + [x for x in full if x[0] == "file"]
        exp_seq = [x[:4] for x in full]
        exp_form = grouped([(x[1], x[5]) for x in full if x[0] == "field"])
        exp_files = grouped([(x[1], x[2], x[4], x[3]) for x in full if x[0] == "file"])
        cuts = list(range(1, len(body))) if case.get("bytewise") else [c for c in case.get("cuts", []) if isinstance(c, int)]
        if dec == "decoder":
            empties = [e for e in case.get("empties", []) if isinstance(e, int)]
            res = decode_events(boundary, split(body, cuts, empties))
            out.fault("fragmented_arrival", len(cuts))
            if empties:
                out.fault("zero_length_arrival", len(empties))
            if res[0] != "ok":
                out.violate(f"{pre}/decode-fails/{res[1]}/enc={enc}/dec=decoder", f"{res[1]}: {res[2]}; body={body[:300]!r}")
            else:
                got = [(p[0], p[1], p[2], p[4]) for p in res[1]]
                if got != exp_seq:
                    self.diff_seq(out, pre, enc, dec, got, exp_seq)
                elif enc == "encoder":
                    # part headers: the file's content type must come back too
                    cts = [dict((k.lower(), v) for k, v in p[3]).get("content-type") for p in res[1] if p[0] == "file"]
                    if cts != [f[2] for f in files]:
                        out.violate(f"{pre}/content-type-differs/enc={enc}/dec={dec}", f"{cts} vs {[f[2] for f in files]}")
        else:
            sim = SimStream(body, Tape(case.get("tape")))
            bs = max(1, int(case.get("bufsize", 65536) or 1))
            try:
                if dec == "parser":
                    from werkzeug.formparser import MultiPartParser

                    form, fls = MultiPartParser(buffer_size=bs).parse(sim, boundary, len(body))
                else:
                    from werkzeug.wrappers import Request

                    env = dict(environ) if environ else {"REQUEST_METHOD": "POST", "SERVER_NAME": "localhost", "SERVER_PORT": "80", "wsgi.url_scheme": "http", "PATH_INFO": "/", "SCRIPT_NAME": "", "QUERY_STRING": ""}
                    env["wsgi.input"] = sim
                    env["CONTENT_TYPE"] = ctype
                    env["CONTENT_LENGTH"] = str(len(body))
                    req = Request(env)
                    first = case.get("data_first")
                    if first in ("bytes", "text"):
                        # the application looks at the raw body before the form (logging, signature checks): the body is
                        # cached and the form is parsed from the cache
                        raw = req.get_data(as_text=first == "text")
                        if raw != (body.decode(errors="replace") if first == "text" else body):
                            out.violate(f"{pre}/raw-body-differs/enc={enc}/dec={dec}", f"get_data returned {len(raw)} items, the body has {len(body)} bytes")
                        out.probe("raw_body_read_before_form")
                    form, fls = req.form, req.files
                got_form = list(form.items(multi=True))
                got_files = []
                for name, f in fls.items(multi=True):
                    got_files.append((name, f.filename, f.content_type, f.stream.read()))
                    f.close()
            except Exception as e:  # noqa: BLE001
                out.violate(f"{pre}/parse-raises/{type(e).__name__}/enc={enc}/dec={dec}", f"{type(e).__name__}: {e}; body={body[:300]!r}")
                return self.done(out, tr, case, seq)
            out.fault("short_read", sim.short_reads)
            if got_form != exp_form:
                out.violate(f"{pre}/form-differs/enc={enc}/dec={dec}", f"parsed {got_form[:4]} expected {exp_form[:4]}")
            elif got_files != exp_files:
                a = [(f[0], f[1], f[2], f[3][-30:], len(f[3])) for f in got_files]
                b = [(f[0], f[1], f[2], f[3][-30:], len(f[3])) for f in exp_files]
                kind = "files-differ"
                if [f[:3] for f in got_files] == [f[:3] for f in exp_files]:
                    kind = "file-content-differs"
                out.violate(f"{pre}/{kind}/enc={enc}/dec={dec}", f"parsed {a[:3]} expected {b[:3]}")
        return self.done(out, tr, case, seq)

    def diff_seq(self, out, pre, enc, dec, got, exp) -> None:
        if [g[:3] for g in got] != [e[:3] for e in exp]:
            out.violate(f"{pre}/parts-differ/enc={enc}/dec={dec}", f"decoded {[g[:3] for g in got][:4]} expected {[e[:3] for e in exp][:4]}")
        else:
            i = [g[3] != e[3] for g, e in zip(got, exp)].index(True)
            out.violate(f"{pre}/payload-differs/enc={enc}/dec={dec}", f"part {i}: {got[i][3][-40:]!r} ({len(got[i][3])}) expected {exp[i][3][-40:]!r} ({len(exp[i][3])})")

    def done(self, out: Outcome, tr: Trace, case: dict, seq) -> Outcome:
        if out.violations and any(p.get("bare_newline_delimiter") for p in case.get("parts", []) if isinstance(p, dict)):
            first = out.violations[0]
            out.violations[:] = [(f"{self.pid}/{self.name}/file-content-with-bare-newline-delimiter-is-cut", f"{first[0].split('/', 2)[-1]}: {first[1]}")]
        out.digest = tr.digest()
        out.trace = tr.events
        out.nontrivial = len(seq) > 0
        shapes = ",".join(f"{s[0][:2]}{min(len(s[3]), 9)}" for s in seq)
        out.key = f"{case.get('enc')}|{case.get('dec')}|{shapes}|{[p.get('splits') for p in case.get('parts', []) if p.get('kind') == 'file']}|{case.get('cuts')}|{case.get('bufsize')}|{len(case.get('tape', []))}"
        out.config = f"{case.get('enc')}->{case.get('dec')}"
        out.steps = len(seq)
        return out


class UrlencodedRoundtrip(Scenario):
    """The urlencoded / query-string clause: no stream state or schedule in it
    (workload only; see DESIGN.md 3.2) - kept small."""

    pid = "C02"
    name = "c02_urlencoded_workload"
    cases = {"quick": 4000, "thorough": 60000}
    chunk = 500
    real = "werkzeug.test.EnvironBuilder (_urlencode), Request.form / Request.args (parse_qsl), LimitedStream"
    stubs = "SimStream transport with short reads"
    rule = "workload clause: seeded input generation only; non-trivial = at least one pair; distinct = the pair list"

    def generate(self, rng: random.Random, tier: str) -> dict:
        pairs = []
        for _ in range(rng.choice([0, 1, 2, 3, 6])):
            pairs.append([gen_text(rng) or "k", gen_text(rng)])
        if len(pairs) >= 2 and rng.random() < 0.5:
            pairs[-1][0] = pairs[0][0]
        return {"form": pairs, "args": [list(p) for p in pairs[::-1]] if rng.random() < 0.5 else [], "tape": [rng.choice([0, 1, 3]) for _ in range(10)]}

    def execute(self, case: dict) -> Outcome:
        from werkzeug.datastructures import MultiDict
        from werkzeug.test import EnvironBuilder
        from werkzeug.wrappers import Request

        out = Outcome()
        tr = Trace()
        pre = f"{self.pid}/{self.name}"

        def clean(pairs):
            res = []
            for p in pairs:
                try:
                    k, v = str(p[0]), str(p[1])
                    k.encode("utf-8")
                    v.encode("utf-8")
                    res.append((k, v))
                except (UnicodeEncodeError, IndexError, TypeError):
                    continue
            return res

        form = clean(case.get("form", []))
        args = clean(case.get("args", []))
        tr.add("form", form, "args", args)
        try:
            b = EnvironBuilder(method="POST", data=MultiDict(form), query_string=MultiDict(args) if args else None)
            env = b.get_environ()
            body = env["wsgi.input"].read()
            env["wsgi.input"] = SimStream(body, Tape(case.get("tape")))
            req = Request(env)
            got_form = list(req.form.items(multi=True))
            got_args = list(req.args.items(multi=True))
        except Exception as e:  # noqa: BLE001
            out.violate(f"{pre}/raises/{type(e).__name__}", f"{type(e).__name__}: {e}")
        else:
            if got_form != grouped(form):
                out.violate(f"{pre}/form-differs", f"{got_form[:4]} expected {grouped(form)[:4]}")
            if got_args != grouped(args):
                out.violate(f"{pre}/args-differ", f"{got_args[:4]} expected {grouped(args)[:4]}")
        out.digest = tr.digest()
        out.trace = tr.events
        out.nontrivial = bool(form or args)
        out.key = repr((form, args))
        out.config = "workload"
        return out


SCENARIOS = [UploadPipeline(), UrlencodedRoundtrip()]
