"""C19 - the development server transports requests and responses faithfully.

Real: werkzeug.serving.WSGIRequestHandler (make_environ / run_wsgi),
DechunkedInput, and under them the stdlib BaseHTTPRequestHandler,
http.client.parse_headers and io.BufferedReader.  Simulated: the socket, the
selector, the server object, the client (what it sends, in which fragments,
when it hangs up or resets) and the application (how it reads the body, what
it answers).  Oracles: conservation in both directions against an independent
strict response parser / de-chunker.
"""
from __future__ import annotations

import io
import random

from dsim import net
from dsim.core import Outcome
from dsim.core import Scenario
from dsim.core import SimHang
from dsim.core import Tape
from dsim.core import Trace
from dsim.core import b2s
from dsim.core import s2b
from dsim.streams import SimRaw
from dsim.streams import SimStreamInto
from refmodels import http_ref

NLS = {"crlf": b"\r\n", "lf": b"\n"}


def gen_pieces(rng: random.Random) -> list[str]:
    k = rng.choice([0, 1, 1, 2, 3, 5])
    atoms = [b"a", b"hello", b"\r\n", b"\n", b"0\r\n\r\n", b"5\r\n", b"\x00\xff", b"x" * 17, b"line one\nline two\n"]
    return [b2s(b"".join(rng.choice(atoms) for _ in range(rng.choice([1, 1, 2, 4])))[: rng.choice([1, 3, 9, 40])]) for _ in range(k)]


def gen_fmt(rng: random.Random) -> dict:
    return {
        "upper": [rng.random() < 0.5 for _ in range(3)],
        "pad": [rng.choice([0, 0, 0, 1, 3]) for _ in range(3)],
        "nl": [rng.choice(["crlf", "crlf", "lf"]) for _ in range(3)],
        "final_nl": rng.choice(["crlf", "crlf", "lf"]),
    }


MALFORMS = ["truncate", "truncate", "truncate", "negative", "nonhex", "lenient_syntax", "missing_terminator", "size_too_big", "header_without_newline"]


def gen_malform(rng: random.Random, npieces: int) -> dict:
    kind = rng.choice(MALFORMS)
    m = {"kind": kind, "idx": rng.randrange(0, max(1, npieces + 1)), "at": rng.randrange(0, 200)}
    if kind == "nonhex":
        m["text"] = rng.choice(["zz", "", "g1", "1g", "-", "1 2", "3;ext=1x"[:2] + "!"])
    if kind == "lenient_syntax":
        m["text"] = rng.choice(["0x{h}", "+{h}", "{h0}_{h1}", "0X{h}"])
    return m


def build_wire(pieces: list[bytes], fmt: dict, malform: dict | None) -> bytes:
    pieces = [p for p in pieces if p]
    upper = [bool(x) for x in fmt.get("upper", [False])] or [False]
    pad = [int(x) if isinstance(x, int) and 0 <= x < 9 else 0 for x in fmt.get("pad", [0])] or [0]
    nls = [NLS.get(x, b"\r\n") for x in fmt.get("nl", ["crlf"])] or [b"\r\n"]
    fnl = NLS.get(fmt.get("final_nl", "crlf"), b"\r\n")
    out = bytearray()
    kind = (malform or {}).get("kind")
    idx = (malform or {}).get("idx", 0)
    if not isinstance(idx, int):
        idx = 0
    n = len(pieces)
    target = idx % (n + 1) if n else 0  # n == the final zero-size chunk
    for i, p in enumerate(pieces + [b""]):
        last = i == n
        size = len(p)
        h = format(size, "X" if upper[i % len(upper)] else "x")
        h = "0" * pad[i % len(pad)] + h
        eol = fnl if last else nls[i % len(nls)]
        hit = malform is not None and i == target
        if hit and kind == "negative":
            h = "-" + (h if size else "1")
        elif hit and kind == "nonhex":
            h = str(malform.get("text", "zz"))
        elif hit and kind == "lenient_syntax" and not last:
            t = str(malform.get("text", "0x{h}"))
            hh = format(size, "x")
            if "{h0}" in t:
                if len(hh) < 2:
                    hh = "0" + hh
                h = t.replace("{h0}", hh[:1]).replace("{h1}", hh[1:])
            else:
                h = t.replace("{h}", hh)
        elif hit and kind == "size_too_big" and not last:
            h = format(size + 1 + (malform.get("at", 0) % 5 if isinstance(malform.get("at"), int) else 0), "x")
        if hit and kind == "header_without_newline":
            out += h.encode("latin-1", "replace")
            return bytes(out)
        out += h.encode("latin-1", "replace") + eol
        if last:
            out += eol
        else:
            out += p
            if not (hit and kind == "missing_terminator"):
                out += eol
    if kind == "truncate":
        at = malform.get("at", 0)
        at = at % max(1, len(out)) if isinstance(at, int) else 0
        return bytes(out[:at])
    return bytes(out)


READ_OPS = ["read", "read", "read", "readline", "readinto", "readinto_mv", "next", "read_all"]


def gen_read_ops(rng: random.Random) -> list:
    return [[rng.choice(READ_OPS), rng.choice([1, 1, 2, 3, 5, 8, 64, 1000])] for _ in range(rng.randrange(1, 8))]


def drive_reads(w, ops: list, to_end: bool, limit: int | None = None):
    """Application-side reading.  Returns (bytes, eof_seen, exception or None)."""
    got = bytearray()
    eof = False
    ops = [o for o in ops if isinstance(o, list) and len(o) == 2 and isinstance(o[1], int)] or [["read", 64]]
    i = 0
    guard = 0
    try:
        while True:
            guard += 1
            if guard > 20000:
                raise SimHang("application read loop does not terminate")
            if i < len(ops):
                kind, arg = ops[i]
            elif to_end:
                kind, arg = ops[i % len(ops)]
            else:
                break
            i += 1
            arg = max(1, arg)
            if limit is not None:
                remaining = limit - len(got)
                if remaining <= 0:
                    break
                arg = min(arg, remaining)
                if kind in ("read_all", "readline", "next"):
                    kind = "read"  # a Content-Length body on the raw socket file must be read by size
            if kind == "read":
                d = w.read(arg)
                e = len(d) == 0
            elif kind == "read_all":
                d = w.read()
                e = True
            elif kind == "readline":
                d = w.readline()
                e = not d.endswith(b"\n")
            elif kind in ("readinto", "readinto_mv"):
                buf = bytearray(arg)
                n = w.readinto(memoryview(buf) if kind == "readinto_mv" else buf) or 0
                if n > arg or len(buf) != arg:
                    raise AssertionError(f"readinto returned {n} / resized the buffer to {len(buf)} for a buffer of {arg}")
                d = bytes(buf[:n])
                e = n == 0
            elif kind == "next":
                try:
                    d = next(w)
                    e = False
                except StopIteration:
                    d = b""
                    e = True
            else:
                continue
            got += d
            if e:
                eof = True
                break
    except SimHang:
        raise
    except Exception as ex:  # noqa: BLE001
        return bytes(got), eof, ex
    return bytes(got), eof, None


def judge_chunked(out: Outcome, pre: str, tag: str, got: bytes, eof: bool, exc, payload: bytes, err: str | None, intended: bytes) -> None:
    """The request-side oracle for a chunked body (shared by both scenarios)."""
    if exc is not None and not isinstance(exc, OSError):
        out.violate(f"{pre}/dechunk-unexpected-exception/{type(exc).__name__}/{tag}", f"{type(exc).__name__}: {exc} (framing error per reference: {err})")
        return
    if not payload.startswith(got):
        kind = "bytes-beyond-decodable-data" if got.startswith(payload) else "wrong-body-bytes"
        out.violate(f"{pre}/dechunk-{kind}/{tag}", f"application read {got[-40:]!r} ({len(got)} bytes); decodable payload is {payload[-40:]!r} ({len(payload)} bytes; framing error: {err})")
        return
    if err is None:
        if exc is not None:
            out.violate(f"{pre}/dechunk-error-on-wellformed-framing/{tag}", f"{type(exc).__name__}: {exc}")
        elif eof and got != payload:
            out.violate(f"{pre}/dechunk-body-truncated/{tag}", f"end of body after {len(got)} of {len(payload)} bytes")
    else:
        out.probe("malformed_framing")
        if exc is None and eof:
            benign = err == "missing final blank line" and payload == intended
            if not benign:
                out.violate(f"{pre}/malformed-framing-not-reported/{tag}", f"framing error ({err}) but the body ended normally after {len(got)} bytes")
        elif exc is not None:
            out.probe("oserror_reported")


class DechunkDirect(Scenario):
    pid = "C19"
    name = "c19_dechunk_direct"
    cases = {"quick": 200000, "thorough": 3000000}
    chunk = 1000
    real = "werkzeug.serving.DechunkedInput (+ stdlib io.BufferedReader below and optionally above it)"
    stubs = "the connection's byte stream (SimStream with tape-chosen fragments), the application's read pattern, the framing generator"
    rule = "non-trivial = at least one non-empty chunk; distinct = (framing incl. malformation, wrappers, read pattern, fragment schedule)"

    def generate(self, rng: random.Random, tier: str) -> dict:
        pieces = gen_pieces(rng)
        return {
            "pieces": pieces,
            "fmt": gen_fmt(rng),
            "malform": gen_malform(rng, len(pieces)) if rng.random() < 0.4 else None,
            "wrap": rng.choice(["raw", "buffered"]),
            "bufsize": rng.choice([1, 2, 5, 16, 8192]),
            "rbuf": rng.choice([1, 4, 16, 8192]),
            "tape": [] if rng.random() < 0.3 else [rng.choice([0, 1, 1, 2, 3]) for _ in range(60)],
            "ops": gen_read_ops(rng),
        }

    def execute(self, case: dict) -> Outcome:
        from werkzeug.serving import DechunkedInput

        out = Outcome()
        tr = Trace()
        pre = f"{self.pid}/{self.name}"
        pieces = [s2b(p) for p in case.get("pieces", []) if isinstance(p, str)]
        mal = case.get("malform") if isinstance(case.get("malform"), dict) else None
        wire = build_wire(pieces, case.get("fmt") or {}, mal)
        payload, err, _ = http_ref.dechunk_strict(wire)
        intended = b"".join(pieces)
        sim = SimStreamInto(wire, Tape(case.get("tape")), hang_calls=6 * len(wire) + 300)
        rfile = io.BufferedReader(SimRaw(sim), buffer_size=max(1, int(case.get("rbuf", 8192) or 1)))
        d = DechunkedInput(rfile)
        wrap = case.get("wrap", "raw")
        w = io.BufferedReader(d, buffer_size=max(1, int(case.get("bufsize", 16) or 1))) if wrap == "buffered" else d
        tag = f"framing={'ok' if mal is None else mal.get('kind')}/wrap={wrap}"
        tr.add("wire", wire[:120], "payload", len(payload), "err", err)
        try:
            got, eof, exc = drive_reads(w, case.get("ops", []), to_end=True)
        except SimHang as e:
            out.violate(f"{pre}/endless-read/{tag}", str(e))
            got, eof, exc = b"", False, None
        else:
            tr.add("read", len(got), "eof", eof, "exc", type(exc).__name__ if exc else None)
            judge_chunked(out, pre, tag, got, eof, exc, payload, err, intended)
        out.digest = tr.digest()
        out.trace = tr.events
        out.steps = sim.calls
        out.fault("fragmented_arrival", sim.short_reads)
        if mal is not None:
            out.fault("malformed_framing:" + str(mal.get("kind")))
        out.nontrivial = bool(intended)
        out.key = f"{wire!r}|{wrap}|{case.get('bufsize')}|{case.get('rbuf')}|{case.get('ops')}|{len(case.get('tape', []))}"
        out.config = "fault-injecting" if mal is not None else "fault-free"
        return out


# ---------------------------------------------------------------------------

SEGMENTS = ["a", "index.html", "a%20b", "caf%C3%A9", "%E5%90%8D%E5%89%8D", "x;y=1", "a:b", "a@b", "%2F", "%25", "~user", "a,b", "(1)", "!$&'*+=", "..", "%F0%9F%90%8D"]
QUERIES = ["", "", "a=1", "a=1&b=2", "q=a%20b", "x=%C3%A9", "a=b=c", "?", "a//b", "%", "redirect=//evil.example"]
HEADER_POOL = [
    ["Host", "localhost"], ["Host", "example.com:8080"], ["User-Agent", "sim/1.0"], ["Accept", "*/*"], ["Accept", "text/html"],
    ["X-Custom", "one"], ["x-custom", "two"], ["X_Under_Score", "dropped"], ["Cookie", "a=b; c=d"], ["Cookie", "e=f"],
    ["X-Empty", ""], ["X-Spaces", "a  b"], ["X-Latin", "caf\xe9"], ["Content-Type", "text/plain; charset=utf-8"], ["X-Forwarded-For", "1.2.3.4, 5.6.7.8"],
]
STATUSES = ["200 OK", "200 OK", "201 Created", "404 NOT FOUND", "500 Internal Server Error", "302 Found", "204 No Content", "304 Not Modified", "100 Continue", "101 Switching Protocols", "599 Custom Reason", "418 I'm a teapot"]
RESP_HEADERS = [["Content-Type", "text/plain"], ["X-A", "1"], ["X-A", "2"], ["Set-Cookie", "a=b"], ["Set-Cookie", "c=d"], ["Location", "/next"], ["X-Empty", ""]]


class Exchange(Scenario):
    pid = "C19"
    name = "c19_exchange"
    cases = {"quick": 100000, "thorough": 1500000}
    chunk = 500
    real = "werkzeug.serving.WSGIRequestHandler.make_environ/run_wsgi, DechunkedInput; stdlib BaseHTTPRequestHandler, http.client.parse_headers, io.BufferedReader, socketserver._SocketWriter"
    stubs = "SimSocket + client script (fragmentation, hang-up, reset on send, 100-continue gating), SimSelector, SimServer, the WSGI application actor, the independent response parser"
    rule = "non-trivial = request has a body or the response has one; distinct = (request shape, framing, read pattern, response spec, protocol, fault plan, fragment schedule)"

    def generate(self, rng: random.Random, tier: str) -> dict:
        method = rng.choice(["GET", "GET", "POST", "POST", "PUT", "DELETE", "HEAD", "OPTIONS", "PATCH", "FOO"])
        tkind = rng.choice(["origin", "origin", "origin", "double_slash", "absolute"])
        segs = [rng.choice(SEGMENTS) for _ in range(rng.choice([0, 1, 2, 3]))]
        framing = "none" if method in ("GET", "HEAD", "DELETE", "OPTIONS") and rng.random() < 0.8 else rng.choice(["length", "chunked", "chunked"])
        pieces = gen_pieces(rng)
        headers = [list(h) for h in rng.sample(HEADER_POOL, rng.choice([1, 2, 4, 6]))]
        if not any(h[0].lower() == "host" for h in headers):
            headers.insert(0, ["Host", "localhost"])
        proto = rng.choice(["HTTP/1.1", "HTTP/1.1", "HTTP/1.0"])
        status = rng.choice(STATUSES)
        code = int(status[:3])
        nobody = method == "HEAD" or code < 200 or code in (204, 304)
        rchunks = [] if nobody and rng.random() < 0.5 else [b2s(rng.choice([b"", b"hello", b"x" * 40, b"\r\n", b"0\r\n\r\n", b"\xff\x00"])) for _ in range(rng.choice([0, 1, 2, 4]))]
        if nobody:
            rchunks = ["" for _ in rchunks]
        faults = rng.random() < 0.25
        mal = gen_malform(rng, len(pieces)) if faults and framing == "chunked" and rng.random() < 0.6 else None
        return {
            "proto": proto,
            "req_version": "HTTP/1.1" if proto == "HTTP/1.1" else rng.choice(["HTTP/1.0", "HTTP/1.1"]),
            "method": method,
            "target": {"kind": tkind, "segments": segs, "query": rng.choice(QUERIES), "trailing_slash": rng.random() < 0.2},
            "headers": headers,
            "framing": framing,
            "pieces": pieces,
            "fmt": gen_fmt(rng),
            "te_spelling": rng.choice(["chunked", "chunked", "Chunked", "CHUNKED"]),
            "expect_continue": framing != "none" and rng.random() < 0.15,
            "malform": mal,
            "hangup_at": rng.randrange(0, 300) if faults and mal is None and framing == "length" and rng.random() < 0.5 else None,
            "reset_on_send": rng.randrange(0, 8) if faults and rng.random() < 0.3 else None,
            "timeout_at": rng.randrange(0, 12) if faults and mal is None and rng.random() < 0.25 else None,
            "client": "half_close" if mal is not None or rng.random() < 0.6 else "keep_open",
            "rbuf": rng.choice([1, 16, 64, 8192]),
            "max_fragment": rng.choice([0, 0, 1, 7]),
            "tape": [] if rng.random() < 0.3 else [rng.choice([0, 1, 1, 2, 3, 10]) for _ in range(80)],
            "app": {
                "read": gen_read_ops(rng),
                "wrap": rng.random() < 0.4,
                "bufsize": rng.choice([1, 3, 16, 8192]),
                "status": status,
                "headers": [list(h) for h in rng.sample(RESP_HEADERS, rng.choice([0, 1, 2, 4]))],
                "content_length": rng.random() < 0.5,
                "chunks": rchunks,
                "via": rng.choice(["iter", "iter", "write", "mixed"]),
                "closable": rng.random() < 0.7,
                "restart": rng.choice([False] * 15 + [True, "in_first_next"]),
            },
        }

    # ------------------------------------------------------------------
    def build_request(self, case: dict):
        t = case.get("target") or {}
        segs = [str(s) for s in t.get("segments", []) if isinstance(s, str)]
        path = "/" + "/".join(segs)
        if t.get("trailing_slash") and not path.endswith("/"):
            path += "/"
        path = "".join(c for c in path if 0x21 <= ord(c) < 0x7F and c not in "?#")
        if not path.startswith("/"):
            path = "/" + path
        query = "".join(c for c in str(t.get("query", "")) if 0x21 <= ord(c) < 0x7F and c != "#")
        kind = t.get("kind", "origin")
        host_override = None
        if kind == "double_slash":
            wire_path = "/" + path if segs and segs[0] not in ("", "..") and not segs[0].startswith("%2F") and path != "/" else path
        elif kind == "absolute":
            wire_path = "http://abs.example:81" + path
            host_override = "abs.example:81"
        else:
            wire_path = path
        target = wire_path + ("?" + query if query else "")
        headers = []
        for h in case.get("headers", []):
            if isinstance(h, list) and len(h) == 2:
                k = "".join(c for c in str(h[0]) if c.isalnum() or c in "-_") or "X-K"
                v = "".join(c for c in str(h[1]) if (0x20 <= ord(c) < 0x7F or 0xA0 <= ord(c) <= 0xFF)).strip()
                if k.lower() in ("content-length", "transfer-encoding", "expect", "connection"):
                    continue
                headers.append((k, v))
        framing = case.get("framing", "none")
        pieces = [s2b(p) for p in case.get("pieces", []) if isinstance(p, str)]
        body = b"".join(pieces)
        mal = case.get("malform") if isinstance(case.get("malform"), dict) else None
        wire_body = b""
        if framing == "length":
            headers.append(("Content-Length", str(len(body))))
            wire_body = body
        elif framing == "chunked":
            headers.append(("Transfer-Encoding", str(case.get("te_spelling", "chunked")) if str(case.get("te_spelling", "chunked")).strip().lower() == "chunked" else "chunked"))
            wire_body = build_wire(pieces, case.get("fmt") or {}, mal)
        else:
            body = b""
        if case.get("expect_continue") and framing != "none":
            headers.append(("Expect", "100-continue"))
        method = "".join(c for c in str(case.get("method", "GET")) if c.isalpha()).upper() or "GET"
        ver = case.get("req_version", "HTTP/1.1")
        if ver not in ("HTTP/1.0", "HTTP/1.1"):
            ver = "HTTP/1.1"
        head = f"{method} {target} {ver}\r\n".encode("latin-1") + b"".join(f"{k}: {v}\r\n".encode("latin-1") for k, v in headers) + b"\r\n"
        # what a CGI gateway must present
        exp_env: dict[str, str] = {}
        for k, v in headers:
            if "_" in k:
                continue
            key = k.upper().replace("-", "_")
            if key not in ("CONTENT_TYPE", "CONTENT_LENGTH"):
                key = "HTTP_" + key
                if key in exp_env:
                    v = exp_env[key] + "," + v
            exp_env[key] = v
        if host_override:
            exp_env["HTTP_HOST"] = host_override
        decoded = http_ref.percent_decode(path.encode("ascii")).decode("latin-1")
        exp_paths = {decoded}
        return {
            "head": head, "wire_body": wire_body, "body": body, "method": method, "exp_env": exp_env, "exp_paths": exp_paths,
            "query": query, "framing": framing, "mal": mal, "pieces": pieces, "wire_path": wire_path, "path": path, "wire_target": target,
        }

    def execute(self, case: dict) -> Outcome:
        out = Outcome()
        tr = Trace()
        pre = f"{self.pid}/{self.name}"
        rq = self.build_request(case)
        appspec = case.get("app") if isinstance(case.get("app"), dict) else {}
        proto = case.get("proto", "HTTP/1.1")
        if proto not in ("HTTP/1.0", "HTTP/1.1"):
            proto = "HTTP/1.1"
        framing = rq["framing"]
        record: dict = {"calls": 0, "closed": 0}
        status = str(appspec.get("status", "200 OK"))
        if not (len(status) > 4 and status[:3].isdigit() and status[3] == " "):
            status = "200 OK"
        code = int(status[:3])
        rchunks = [s2b(c) for c in appspec.get("chunks", []) if isinstance(c, str)]
        nobody = rq["method"] == "HEAD" or code < 200 or code in (204, 304)
        if nobody:
            rchunks = [b"" for _ in rchunks]
        rheaders = [(str(h[0]), str(h[1])) for h in appspec.get("headers", []) if isinstance(h, list) and len(h) == 2 and str(h[0]).lower() not in ("content-length", "transfer-encoding", "connection")]
        rbody = b"".join(rchunks)
        with_cl = bool(appspec.get("content_length")) and not (code < 200 or code == 204)
        if with_cl:
            rheaders = rheaders + [("Content-Length", str(len(rbody)))]
        via = appspec.get("via", "iter")

        def app(environ, start_response):
            record["calls"] += 1
            record["environ"] = {k: v for k, v in environ.items() if isinstance(v, str)}
            stream = environ["wsgi.input"]
            record["terminated"] = bool(environ.get("wsgi.input_terminated"))
            if framing != "none":
                w = io.BufferedReader(stream, buffer_size=max(1, int(appspec.get("bufsize", 16) or 1))) if appspec.get("wrap") and framing == "chunked" else stream
                if framing == "chunked":
                    record["read"] = drive_reads(w, appspec.get("read", []), to_end=True)
                else:
                    record["read"] = drive_reads(w, appspec.get("read", []), to_end=True, limit=len(rq["body"]))
            restart = appspec.get("restart")
            lazy_restart = restart == "in_first_next" and via == "iter"

            def replace_response():
                try:
                    raise RuntimeError("first attempt failed")
                except RuntimeError:
                    import sys

                    return start_response(status, list(rheaders), sys.exc_info())

            if restart:
                # PEP 3333: before any output was sent, an error handler may replace the pending response by calling
                # start_response again with exc_info; the client must get the second response only
                write = start_response("500 INTERNAL SERVER ERROR", [("X-Discarded", "first-attempt"), ("Content-Length", "0")])
                if not lazy_restart:
                    write = replace_response()
                record["restarted"] = True
            else:
                write = start_response(status, list(rheaders))

            class Body:
                def __init__(self, items):
                    self.it = iter(items)
                    self.first = True

                def __iter__(self):
                    return self

                def __next__(self):
                    if self.first:
                        self.first = False
                        if lazy_restart:
                            # producing the first chunk failed and the iterable itself installs the replacement: still before any output
                            replace_response()
                    return next(self.it)

            if via == "write":
                for c in rchunks:
                    write(c)
                items = []
            elif via == "mixed" and rchunks:
                write(rchunks[0])
                items = rchunks[1:]
            else:
                items = rchunks
            body = Body(items)
            if appspec.get("closable", True):
                def close():
                    record["closed"] += 1
                body.close = close  # type: ignore[attr-defined]
                record["closable"] = True
            return body

        wire = rq["head"] + rq["wire_body"]
        hang = case.get("hangup_at")
        half_close = case.get("client", "half_close") != "keep_open"
        truncated = False
        if isinstance(hang, int) and framing == "length" and rq["mal"] is None:
            cut = len(rq["head"]) + (hang % (len(rq["wire_body"]) + 1))
            if cut < len(wire):
                wire = wire[:cut]
                truncated = True
                half_close = True
        if rq["mal"] is not None:
            half_close = True
        segments = [{"data": wire}]
        if case.get("expect_continue") and framing != "none" and not truncated:
            segments = [{"data": rq["head"]}, {"data": rq["wire_body"], "after": b"100 Continue"}]
        reset = case.get("reset_on_send")
        reset = reset if isinstance(reset, int) and reset >= 0 else None
        tmo = case.get("timeout_at")
        tmo = tmo if isinstance(tmo, int) and tmo >= 0 else None
        if tmo is not None:
            # unread request bytes + a client that keeps the connection open make the drain loop wait for the client
            # (by design: "we can read everything"); the stalled-client fault therefore ends with the client closing
            half_close = True
        script = net.ClientScript(segments, half_close=half_close)
        tag = f"proto={proto}/framing={framing}"
        tr.add("request", rq["head"][:200], "body", len(rq["wire_body"]), "client", "half_close" if half_close else "keep_open", "reset", reset, "truncated", truncated)
        try:
            sock, server, selmod, err = net.run_exchange(app, script, Tape(case.get("tape")), protocol=proto, rbuf=max(1, int(case.get("rbuf", 8192) or 1)), reset_on_send=reset, max_fragment=int(case.get("max_fragment", 0) or 0), timeout_at=tmo)
        except SimHang as e:
            out.violate(f"{pre}/server-blocks-or-spins/{tag}", str(e))
            return self.finish(out, tr, case, rq, None)
        tr.add("sent", bytes(sock.sent)[:300], "recv_calls", sock.recv_calls, "err", type(err).__name__ if err else None)
        if err is not None:
            out.violate(f"{pre}/handler-raises/{type(err).__name__}/{tag}", f"{type(err).__name__}: {err}")
            return self.finish(out, tr, case, rq, sock)
        if sock.timeout_fired:
            # the stalled-client fault: the handler must swallow the timeout (connection dropped), an application that was
            # already running sees an OSError from its read and its iterable is still closed exactly once
            out.fault("socket_timeout_on_recv")
            if record["calls"] > 1:
                out.violate(f"{pre}/application-not-called-once/{tag}", f"application called {record['calls']} times")
            if record["calls"] == 1:
                got, eof, exc = record.get("read", (b"", False, None))
                expected_body = http_ref.dechunk_strict(rq["wire_body"])[0] if framing == "chunked" else rq["body"]
                if exc is not None and not isinstance(exc, OSError):
                    out.violate(f"{pre}/timeout-surfaces-as/{type(exc).__name__}/{tag}", f"{type(exc).__name__}: {exc}")
                elif not expected_body.startswith(got):
                    out.violate(f"{pre}/wrong-body-bytes/{tag}", f"read {got[-30:]!r} after a socket timeout, not a prefix of the body")
                # (whether the iterable is still closed when the drain loop itself hits the timeout is not part of C19: observation O5)
            return self.finish(out, tr, case, rq, sock)
        if record["calls"] == 0 and sock.reset_fired:
            out.fault("reset_on_send")
            out.probe("reset_before_application_ran")
            return self.finish(out, tr, case, rq, sock)
        if record["calls"] != 1:
            out.violate(f"{pre}/application-not-called-once/{tag}", f"application called {record['calls']} times; server output {bytes(sock.sent)[:120]!r}")
            return self.finish(out, tr, case, rq, sock)
        # ---- request side --------------------------------------------------
        env = record["environ"]
        if env.get("REQUEST_METHOD") != rq["method"]:
            out.violate(f"{pre}/method-differs/{tag}", f"{env.get('REQUEST_METHOD')!r} vs sent {rq['method']!r}")
        kind = (case.get("target") or {}).get("kind", "origin")
        exp_paths = set(rq["exp_paths"])
        if kind == "double_slash" and rq["wire_path"].startswith("//"):
            # pinned by tests/test_serving.py::test_double_slash_path: the doubled slash is collapsed, never taken as a host
            exp_paths = {"/" + p for p in exp_paths} | exp_paths
        if env.get("PATH_INFO") not in exp_paths:
            out.violate(f"{pre}/path-differs/target={kind}", f"PATH_INFO {env.get('PATH_INFO')!r} for request target {rq['wire_path']!r}, expected {sorted(exp_paths)}")
        if env.get("SERVER_PROTOCOL") != case.get("req_version", "HTTP/1.1") and case.get("req_version") in ("HTTP/1.0", "HTTP/1.1"):
            out.violate(f"{pre}/server-protocol-differs/{tag}", f"SERVER_PROTOCOL {env.get('SERVER_PROTOCOL')!r} vs request line {case.get('req_version')!r}")
        if (env.get("REMOTE_ADDR"), env.get("SERVER_NAME"), env.get("SERVER_PORT"), env.get("wsgi.url_scheme"), env.get("SCRIPT_NAME")) != ("127.0.0.1", "127.0.0.1", "5000", "http", ""):
            out.violate(f"{pre}/connection-variables-differ/{tag}", f"{[(k, env.get(k)) for k in ('REMOTE_ADDR', 'SERVER_NAME', 'SERVER_PORT', 'wsgi.url_scheme', 'SCRIPT_NAME')]}")
        if env.get("REQUEST_URI") != rq["wire_target"] and not rq["wire_target"].startswith("//"):
            out.violate(f"{pre}/request-uri-differs/target={(case.get('target') or {}).get('kind', 'origin')}", f"REQUEST_URI {env.get('REQUEST_URI')!r} vs request target {rq['wire_target']!r}")
        if env.get("QUERY_STRING") != rq["query"]:
            out.violate(f"{pre}/query-differs/target={kind}", f"QUERY_STRING {env.get('QUERY_STRING')!r} vs sent {rq['query']!r}")
        got_env = {k: v for k, v in env.items() if k.startswith("HTTP_") or k in ("CONTENT_TYPE", "CONTENT_LENGTH")}
        if got_env != rq["exp_env"]:
            diff = {k: (got_env.get(k), rq["exp_env"].get(k)) for k in set(got_env) | set(rq["exp_env"]) if got_env.get(k) != rq["exp_env"].get(k)}
            out.violate(f"{pre}/headers-differ/target={kind}", f"(seen by application, expected): {diff}")
        if framing == "chunked":
            if not record.get("terminated"):
                out.violate(f"{pre}/chunked-input-not-marked-terminated/{tag}", "Transfer-Encoding: chunked but wsgi.input_terminated is not set")
            got, eof, exc = record.get("read", (b"", False, None))
            payload, ferr, _ = http_ref.dechunk_strict(rq["wire_body"])
            mtag = f"framing={'ok' if rq['mal'] is None else rq['mal'].get('kind')}/wrap={'buffered' if appspec.get('wrap') else 'raw'}"
            judge_chunked(out, pre, mtag, got, eof, exc, payload, ferr, rq["body"])
        elif framing == "length":
            got, eof, exc = record.get("read", (b"", False, None))
            if exc is not None:
                out.violate(f"{pre}/body-read-raises/{type(exc).__name__}/{tag}", f"{type(exc).__name__}: {exc}")
            elif truncated:
                if not rq["body"].startswith(got):
                    out.violate(f"{pre}/wrong-body-bytes/{tag}", f"read {got[-30:]!r}, sent prefix of {rq['body'][-30:]!r}")
            elif got != rq["body"]:
                out.violate(f"{pre}/body-differs/{tag}", f"application read {got[-40:]!r} ({len(got)}), client sent {rq['body'][-40:]!r} ({len(rq['body'])})")
        # ---- liveness ------------------------------------------------------
        if sock.recv_in_drain > 3:
            out.violate(f"{pre}/drain-loop-does-not-stop/{tag}", f"{sock.recv_in_drain} recv calls by the drain loop after the client's last byte")
        if record.get("closable") and record["closed"] != 1:
            out.violate(f"{pre}/app-iter-close-count/{tag}", f"the application iterable's close() ran {record['closed']} times (reset on send: {sock.reset_fired})")
        # ---- response side ---------------------------------------------------
        if not sock.reset_fired:
            resp = http_ref.parse_response(bytes(sock.sent), head_request=rq["method"] == "HEAD")
            want_chunked = proto == "HTTP/1.1" and not with_cl and not nobody
            if resp["error"]:
                out.violate(f"{pre}/response-malformed/{tag}", f"{resp['error']}; wire {bytes(sock.sent)[:200]!r}")
            else:
                if (resp["code"], resp["reason"]) != (code, status[4:]):
                    out.violate(f"{pre}/status-differs/{tag}", f"client got {resp['code']} {resp['reason']!r}, application said {status!r}")
                if resp["version"] != proto:
                    out.violate(f"{pre}/version-differs/{tag}", f"{resp['version']} vs handler protocol {proto}")
                # the stdlib adds Server and Date first; their values are not the application's business
                exp_headers = [(k, v) for k, v in resp["headers"][:2] if k in ("Server", "Date")] + rheaders + ([("Transfer-Encoding", "chunked")] if want_chunked else []) + [("Connection", "close")]
                if resp["headers"] != exp_headers:
                    out.violate(f"{pre}/response-headers-differ/{tag}", f"client got {resp['headers']}, expected {exp_headers}")
                elif resp["chunked"] != want_chunked:
                    out.violate(f"{pre}/chunked-framing-decision/{tag}", f"chunked={resp['chunked']} for status {code}, method {rq['method']}, content-length given: {with_cl}")
                if resp["body"] != rbody:
                    out.violate(f"{pre}/response-body-differs/{tag}", f"client got {resp['body'][-40:]!r} ({len(resp['body'])}), application produced {rbody[-40:]!r} ({len(rbody)})")
                if case.get("expect_continue") and framing != "none" and not truncated and (not resp["interim"] or set(resp["interim"]) != {100}):
                    out.violate(f"{pre}/no-100-continue/{tag}", "client sent Expect: 100-continue and got no interim response")
        else:
            out.fault("reset_on_send")
        return self.finish(out, tr, case, rq, sock)

    def finish(self, out: Outcome, tr: Trace, case: dict, rq: dict, sock) -> Outcome:
        out.digest = tr.digest()
        out.trace = tr.events
        if sock is not None:
            out.steps = sock.recv_calls + sock.send_calls
            out.fault("fragmented_arrival", sock.fragments)
        if rq["mal"] is not None:
            out.fault("malformed_framing:" + str(rq["mal"].get("kind")))
        if isinstance(case.get("hangup_at"), int):
            out.fault("client_hangup_mid_body")
        app = case.get("app") if isinstance(case.get("app"), dict) else {}
        out.nontrivial = bool(rq["body"]) or any(app.get("chunks", []))
        out.key = f"{rq['head']!r}|{rq['wire_body']!r}|{case.get('proto')}|{app}|{case.get('rbuf')}|{case.get('client')}|{case.get('reset_on_send')}|{case.get('hangup_at')}|{len(case.get('tape', []))}|{case.get('max_fragment')}"
        faulty = rq["mal"] is not None or isinstance(case.get("hangup_at"), int) or isinstance(case.get("reset_on_send"), int) or isinstance(case.get("timeout_at"), int)
        out.config = "fault-injecting" if faulty else "fault-free"
        return out


SCENARIOS = [DechunkDirect(), Exchange()]
