"""C01 - multipart decoding does not depend on how the body is chunked.

Real: ``MultipartDecoder`` (receive_data / next_event), ``MultiPartParser.parse``
with its ``_chunk_iter`` read loop, ``FileStorage``.  Simulated: the arrival
schedule of the body bytes (cut offsets; every single cut and, for small bodies,
every pair of cuts as fault enumeration), the parser's buffer size and short
reads of its input stream.  Oracle: differential against the trivial schedule
(whole body at once), plus the generator's ground truth.
"""
from __future__ import annotations

import random

from dsim.core import Outcome
from dsim.core import Scenario
from dsim.core import Tape
from dsim.core import Trace
from dsim.core import key_hash
from dsim.core import s2b
from dsim.streams import SimStream
from refmodels import multipart_gen as mg


def decode_events(boundary: bytes, chunks: list[bytes], max_form_memory_size=None, max_parts=None, monitor=None):
    """Drive the real decoder the way MultiPartParser does.  Returns
    ("ok", parts) or ("exc", type name, message, parts so far)."""
    from werkzeug.sansio import multipart as mp

    dec = mp.MultipartDecoder(boundary, max_form_memory_size, max_parts=max_parts)
    parts: list[list] = []
    cur = None
    done = False
    empty_more = 0
    try:
        for chunk in list(chunks) + [None]:
            dec.receive_data(chunk)
            if monitor is not None:
                monitor(dec, chunk)
            guard = 0
            while True:
                guard += 1
                if guard > 100000:
                    return ("exc", "Livelock", "next_event keeps returning events without consuming input", parts)
                ev = dec.next_event()
                if isinstance(ev, mp.NeedData):
                    break
                if isinstance(ev, mp.Epilogue):
                    done = True
                    break
                if isinstance(ev, mp.Preamble):
                    continue
                if isinstance(ev, mp.Field):
                    cur = ["field", ev.name, None, [(k, v) for k, v in ev.headers], bytearray(), False]
                    parts.append(cur)
                elif isinstance(ev, mp.File):
                    cur = ["file", ev.name, ev.filename, [(k, v) for k, v in ev.headers], bytearray(), False]
                    parts.append(cur)
                elif isinstance(ev, mp.Data):
                    if cur is None or cur[5]:
                        return ("exc", "ProtocolError", "Data event outside a part", parts)
                    cur[4] += ev.data
                    if not ev.data and ev.more_data:
                        empty_more += 1
                    if not ev.more_data:
                        cur[5] = True
            if done:
                break
    except Exception as e:  # noqa: BLE001
        return ("exc", type(e).__name__, str(e)[:200], parts)
    if not done:
        return ("exc", "Incomplete", "decoder did not reach the epilogue", parts)
    if any(not p[5] for p in parts):
        return ("exc", "Incomplete", "a part never received its final Data event", parts)
    return ("ok", [(p[0], p[1], p[2], tuple(p[3]), bytes(p[4])) for p in parts])


def split(body: bytes, cuts: list[int], empties: list[int] | None = None) -> list[bytes]:
    """Pieces of ``body`` cut at ``cuts``; ``empties`` lists piece positions before which a zero-length arrival is
    delivered as well (a receive call that brings nothing is still a legal way for the bytes to arrive)."""
    cs = sorted({c for c in cuts if isinstance(c, int) and 0 < c < len(body)})
    out = []
    prev = 0
    for c in cs:
        out.append(body[prev:c])
        prev = c
    out.append(body[prev:])
    for pos in sorted({e for e in (empties or []) if isinstance(e, int) and 0 <= e <= len(out)}, reverse=True):
        out.insert(pos, b"")
    return out


def classify_diff(ref, got, style: str) -> tuple[str, str]:
    """(class suffix, message) for a schedule result that differs from the reference."""
    if got[0] == "exc":
        return f"exception-under-schedule/{got[1]}/nl={style}", f"{got[1]}: {got[2]} (whole-body decode gave {len(ref[1])} parts)"
    a, b = ref[1], got[1]
    if len(a) != len(b) or any(x[:4] != y[:4] for x, y in zip(a, b)):
        return f"structure-differs/nl={style}", f"parts {[x[:3] for x in b]} vs whole-body decode {[x[:3] for x in a]}"
    for i, (x, y) in enumerate(zip(a, b)):
        if x[4] != y[4]:
            kind = "payload-differs"
            if y[4].startswith(x[4]) and set(y[4][len(x[4]) :]) <= {10, 13}:
                kind = "payload-gains-trailing-linebreak"
            elif x[4].startswith(y[4]):
                kind = "payload-truncated"
            elif y[4].startswith(x[4]):
                kind = "payload-gains-bytes"
            return f"{kind}/nl={style}", f"part {i} ({x[0]} {x[1]!r}): {y[4][-40:]!r} ({len(y[4])} bytes) vs whole-body decode {x[4][-40:]!r} ({len(x[4])} bytes)"
    return "differs", "results differ"


def cut_context(body: bytes, marks: list[dict], cut: int, nl: bytes) -> str:
    for m in marks:
        ds, de = m["delim"]
        if cut == m["blank"]:
            return "right_after_blank_line"
        if ds < cut < ds + len(nl):
            return "inside_linebreak_before_delimiter"
        if ds + len(nl) <= cut < de:
            return "inside_delimiter"
        if de <= cut <= de + 3:
            return "inside_delimiter_trailer"
        if m["hdr"] < cut < m["blank"]:
            return "inside_headers"
        if m["data"][0] < cut < m["data"][1]:
            if body[cut - 1 : cut] in (b"\r", b"\n") or body[cut : cut + 1] in (b"\r", b"\n"):
                return "next_to_linebreak_in_payload"
            return "inside_payload"
    return "other"


class DecoderChunking(Scenario):
    pid = "C01"
    name = "c01_decoder_chunking"
    level = "fault_enumeration"
    cases = {"quick": 4000, "thorough": 120000}
    chunk = 100
    real = "werkzeug.sansio.multipart.MultipartDecoder (receive_data / next_event)"
    stubs = "arrival schedule of the body (cut offsets), the body renderer"
    rule = (
        "one evaluation = one generated well-formed body decoded under one schedule strategy (a sweep strategy runs every single cut, or every pair of "
        "cuts, of that body); non-trivial = body has at least one part and at least one cut; distinct = (body hash, schedule)"
    )

    def generate(self, rng: random.Random, tier: str) -> dict:
        spec = mg.gen_body_spec(rng, max_parts=5, maxlen=120 if rng.random() < 0.85 else 600)
        body, marks = mg.render(spec)
        n = len(body)
        strat = rng.choice(["sweep2", "sweep2", "bytewise", "random", "random", "structural", "structural", "sweep3"])
        sched: dict = {"kind": strat}
        if strat == "random":
            k = rng.choice([1, 2, 3, 5, 10])
            sched = {"kind": "cuts", "cuts": sorted(rng.randrange(1, max(2, n)) for _ in range(k))}
        elif strat == "structural":
            offs = mg.structural_offsets(body, marks) or [1]
            k = rng.choice([1, 2, 3, 4, 8])
            sched = {"kind": "cuts", "cuts": sorted(rng.choice(offs) for _ in range(k))}
        elif strat == "sweep3":
            sched = {"kind": "sweep3", "limit": 56 if tier == "quick" else 90}
        if sched["kind"] == "cuts" and rng.random() < 0.3:
            sched["empties"] = sorted(rng.randrange(0, len(sched["cuts"]) + 2) for _ in range(rng.choice([1, 1, 2])))
        elif sched["kind"] in ("sweep2", "bytewise"):
            sched["empty_every"] = rng.choice([0, 0, 3, 7])
        spec["schedule"] = sched
        return spec

    def narrow(self, case: dict, hint) -> dict:
        c = dict(case)
        cuts, empties = hint if isinstance(hint, tuple) else (hint, [])
        c["schedule"] = {"kind": "cuts", "cuts": list(cuts)}
        if empties:
            c["schedule"]["empties"] = list(empties)
        return c

    def execute(self, case: dict) -> Outcome:
        out = Outcome()
        tr = Trace()
        style = case.get("newline", "crlf")
        if style not in mg.NL:
            style = "crlf"
        nl = mg.NL[style]
        body, marks = mg.render(case)
        boundary = str(case.get("boundary", "b")).encode("ascii", "replace") or b"b"
        ref = decode_events(boundary, [body])
        truth = mg.truth(case)
        tr.add("body", len(body), "parts", len(truth), "nl", style, "boundary", len(boundary))
        pre = f"{self.pid}/{self.name}"
        if ref[0] != "ok":
            out.violate(f"{pre}/whole-body-decode-fails/{ref[1]}/nl={style}", f"well-formed body, delivered whole: {ref[1]}: {ref[2]}")
        else:
            got_truth = [(p[0], p[1], p[2], p[4]) for p in ref[1]]
            if got_truth != truth:
                out.violate(f"{pre}/whole-body-decode-differs-from-ground-truth/nl={style}", f"decoded {[(p[0], p[1], p[2], p[3][-20:]) for p in got_truth]} expected {[(p[0], p[1], p[2], p[3][-20:]) for p in truth]}")
        sched = case.get("schedule") or {}
        kind = sched.get("kind", "cuts")
        n = len(body)
        schedules: list[list[int]]
        if kind == "sweep2":
            schedules = [[c] for c in range(1, n)]
        elif kind == "sweep3":
            lim = int(sched.get("limit", 56))
            if n <= lim:
                schedules = [[a, b] for a in range(1, n) for b in range(a + 1, n)]
            else:
                offs = mg.structural_offsets(body, marks)[:60]
                schedules = [[a, b] for i, a in enumerate(offs) for b in offs[i + 1 :]]
        elif kind == "bytewise":
            schedules = [list(range(1, n))]
        else:
            schedules = [[int(c) for c in sched.get("cuts", []) if isinstance(c, int)]]
        nparts = len(truth)
        execs = 0
        if not out.violations:
            fixed_empties = [e for e in sched.get("empties", []) if isinstance(e, int)] if kind == "cuts" else []
            every = sched.get("empty_every", 0) if isinstance(sched.get("empty_every", 0), int) else 0
            runs: list[tuple[list[int], list[int]]] = []
            for j, cuts in enumerate(schedules):
                runs.append((cuts, fixed_empties))
                if every > 0 and j % every == 0:
                    # the same cut with a zero-length arrival before, between or after the pieces
                    runs.append((cuts, [j % (len(cuts) + 2)]))
            for cuts, empties in runs:
                got = decode_events(boundary, split(body, cuts, empties))
                execs += 1
                if empties:
                    out.fault("zero_length_arrival")
                if len(cuts) <= 3:
                    for c in cuts:
                        out.probe("cut:" + cut_context(body, marks, c, nl))
                if got != ref:
                    suffix, msg = classify_diff(ref, got, style)
                    bl = any(p.get("bodyless") for p in case.get("parts", []))
                    out.violate(f"{pre}/{suffix}", f"cuts={cuts[:8]} empty_arrivals_at={empties} bodyless_part={bl}: {msg}")
                    tr.add("diverged", cuts[:8], empties, suffix)
                    out.extra["narrow"] = (cuts, empties)
                    break
        tr.add("schedules", kind, execs, "ref", ref[0], [(p[0], p[1], p[2], len(p[4])) for p in ref[1]] if ref[0] == "ok" else ref[1:3])
        out.steps = execs
        out.probe("schedules_executed", execs)
        out.fault("fragmented_arrival", execs)
        out.probe("style:" + style)
        if any(p.get("bodyless") for p in case.get("parts", [])):
            out.probe("has_bodyless_part")
        out.nontrivial = nparts > 0 and n > 1
        out.key = f"{key_hash(body.decode('latin-1')):x}|{kind}|{sched.get('cuts')}"
        out.config = kind
        out.digest = tr.digest()
        out.trace = tr.events
        return out


def parse_with_parser(boundary: bytes, body: bytes, buffer_size: int, tape: list[int], content_length, limits: dict | None = None):
    from werkzeug.formparser import MultiPartParser

    sim = SimStream(body, Tape(tape))
    limits = limits or {}
    parser = MultiPartParser(buffer_size=buffer_size, **limits)
    try:
        form, files = parser.parse(sim, boundary, content_length)
    except Exception as e:  # noqa: BLE001
        return ("exc", type(e).__name__, str(e)[:200]), sim
    fl = []
    for name, fs in files.items(multi=True):
        data = fs.stream.read()
        fl.append((name, fs.filename, fs.content_type, tuple((k, v) for k, v in fs.headers), data))
        try:
            fs.close()
        except Exception:  # noqa: BLE001
            pass
    return ("ok", list(form.items(multi=True)), fl), sim


class ParserBuffer(Scenario):
    pid = "C01"
    name = "c01_parser_buffer"
    level = "fault_enumeration"
    cases = {"quick": 3000, "thorough": 80000}
    chunk = 100
    real = "werkzeug.formparser.MultiPartParser.parse, _chunk_iter, MultipartDecoder, FileStorage, default_stream_factory"
    stubs = "the input stream (SimStream with tape-chosen short reads), the body renderer"
    rule = (
        "one evaluation = one body parsed under one buffer-size strategy (the sweep strategy runs every buffer_size 1..len+1); non-trivial = at least "
        "one part; distinct = (body hash, strategy, buffer size, tape)"
    )

    def generate(self, rng: random.Random, tier: str) -> dict:
        big = tier == "thorough" and rng.random() < 0.003
        spec = mg.gen_body_spec(rng, max_parts=5, maxlen=100 if rng.random() < 0.85 else 500)
        if big:
            # cross the SpooledTemporaryFile threshold (500 KiB) with one large file
            spec["parts"].append({"kind": "file", "name": "big", "filename": "big.bin", "headers": [], "fold": False, "bodyless": False, "payload": "", "repeat": 520 * 1024})
        body, _ = render(spec)
        n = len(body)
        strat = rng.choice(["sweep", "sweep", "sizes", "sizes", "short"]) if not big else "sizes"
        sched: dict = {"kind": strat}
        if strat == "sizes":
            sched["sizes"] = sorted({rng.choice([1, 2, 3, 7, 16, 64, 1024]), rng.randrange(1, n + 2), n, n + 1}) if not big else [65536, 8192, 100003]
        elif strat == "short":
            sched["sizes"] = [rng.choice([8, 64, 1024, 65536])]
        sched["tape"] = [] if rng.random() < 0.4 else [rng.choice([0, 0, 1, 2, 3, 7, 50]) for _ in range(60)]
        sched["content_length"] = rng.choice([None, n])
        spec["schedule"] = sched
        return spec

    def execute(self, case: dict) -> Outcome:
        out = Outcome()
        tr = Trace()
        style = case.get("newline", "crlf")
        if style not in mg.NL:
            style = "crlf"
        body, marks = render(case)
        boundary = str(case.get("boundary", "b")).encode("ascii", "replace") or b"b"
        sched = case.get("schedule") or {}
        cl = sched.get("content_length")
        cl = int(cl) if isinstance(cl, int) else None
        ref, _ = parse_with_parser(boundary, body, 1 << 22, [], cl)
        pre = f"{self.pid}/{self.name}"
        n = len(body)
        truth = mg.truth(case)
        tr.add("body", n, "parts", len(truth), "nl", style)
        if ref[0] != "ok":
            out.violate(f"{pre}/whole-body-parse-fails/{ref[1]}/nl={style}", f"well-formed body read in one piece: {ref[1]}: {ref[2]}")
        kind = sched.get("kind", "sizes")
        if kind == "sweep":
            sizes = list(range(1, min(n, 400) + 2))
        else:
            sizes = [max(1, int(s)) for s in sched.get("sizes", [n]) if isinstance(s, int)]
        tape = [t for t in sched.get("tape", []) if isinstance(t, int)]
        execs = 0
        short = 0
        if not out.violations:
            for bs in sizes:
                got, sim = parse_with_parser(boundary, body, bs, tape, cl)
                execs += 1
                short += sim.short_reads
                if got != ref:
                    if got[0] == "exc":
                        suffix, msg = f"exception-under-schedule/{got[1]}/nl={style}", f"{got[1]}: {got[2]}"
                    elif got[1] != ref[1]:
                        suffix, msg = f"form-differs/nl={style}", f"{got[1]} vs {ref[1]}"
                    elif [f[:4] for f in got[2]] != [f[:4] for f in ref[2]]:
                        suffix, msg = f"files-structure-differs/nl={style}", f"{[f[:3] for f in got[2]]} vs {[f[:3] for f in ref[2]]}"
                    else:
                        i = [a[4] != b[4] for a, b in zip(got[2], ref[2])].index(True)
                        a, b = got[2][i][4], ref[2][i][4]
                        suffix, msg = f"file-content-differs/nl={style}", f"file {i}: {a[-40:]!r} ({len(a)} bytes) vs {b[-40:]!r} ({len(b)} bytes)"
                    out.violate(f"{pre}/{suffix}", f"buffer_size={bs} short_read_tape={tape[:8]}: {msg}")
                    tr.add("diverged", bs, suffix)
                    out.extra["narrow"] = [bs]
                    break
        tr.add("schedules", kind, execs, ref[0], ref[1] if ref[0] == "ok" else ref[1:3], [(f[0], f[1], f[2], len(f[4])) for f in ref[2]] if ref[0] == "ok" else "")
        out.steps = execs
        out.probe("buffer_sizes_executed", execs)
        out.fault("short_read", short)
        out.fault("small_buffer_refill", execs)
        if n > 500 * 1024:
            out.probe("spooled_file_rollover")
        out.nontrivial = len(truth) > 0
        out.key = f"{key_hash(body.decode('latin-1')):x}|{kind}|{sizes[:6]}|{tape[:6]}"
        out.config = kind
        out.digest = tr.digest()
        out.trace = tr.events
        return out

    def narrow(self, case: dict, sizes: list[int]) -> dict:
        c = dict(case)
        s = dict(case.get("schedule") or {})
        s["kind"] = "sizes"
        s["sizes"] = list(sizes)
        c["schedule"] = s
        return c


def render(spec: dict):
    """render, honouring the ``repeat`` shorthand for very large payloads."""
    if any(p.get("repeat") for p in spec.get("parts", [])):
        spec = dict(spec)
        parts = []
        for p in spec["parts"]:
            if p.get("repeat"):
                p = dict(p)
                unit = "0123456789abcdef\r\nXY-"
                p["payload"] = (unit * (int(p["repeat"]) // len(unit) + 1))[: int(p["repeat"])]
            parts.append(p)
        spec["parts"] = parts
    return mg.render(spec)


SCENARIOS = [DecoderChunking(), ParserBuffer()]
