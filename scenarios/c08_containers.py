"""C08 - multi-value containers behave exactly like their documented model.

One run = one history of public operations on real containers, checked after
*every* step against the reference models in refmodels/containers.py: all
public reads of every live object (the subject, its copies, immutable
snapshots, and the views - CombinedMultiDict over the first two dicts,
EnvironHeaders over an environ the history mutates).  "Fault" operations:
copy / copy.copy / copy.deepcopy / pickle round trip (restart from durable
state) - the copy must read like the original, be independent afterwards, and
agree on == / hash; converters that raise.
"""
from __future__ import annotations

import copy
import pickle
import random

from dsim.core import Outcome
from dsim.core import Scenario
from dsim.core import Trace
from refmodels.containers import KEYERROR
from refmodels.containers import HeaderSetModel
from refmodels.containers import HeadersModel
from refmodels.containers import MDModel
from refmodels.containers import combined
from refmodels.containers import conv_int

KEYS = ["a", "A", "b", "B-c"]
VALS = ["1", "2", "x", ""]


class Boom(Exception):
    pass


def conv_boom(v):
    raise Boom(v)


def guard(f):
    """Run a read; map the documented exceptions to markers."""
    try:
        return f()
    except KeyError:
        return KEYERROR
    except Boom:
        return "<Boom>"
    except (IndexError, TypeError, AttributeError, ValueError) as e:
        return f"<{type(e).__name__}>"


def gen_arg(rng: random.Random):
    """A constructor / update argument in one of the documented forms."""
    form = rng.choice(["pairs", "pairs", "dict", "dict_lists", "dict_tuples", "dict_sets", "empty"])
    n = rng.choice([0, 1, 2, 3])
    if form == "pairs":
        return ["pairs", [[rng.choice(KEYS), rng.choice(VALS)] for _ in range(n)]]
    if form == "dict":
        return ["dict", [[rng.choice(KEYS), rng.choice(VALS)] for _ in range(n)]]
    if form == "empty":
        return ["pairs", []]
    return [form, [[rng.choice(KEYS), [rng.choice(VALS) for _ in range(rng.choice([0, 1, 2]))]] for _ in range(n)]]


def build_arg(spec):
    """(argument for the real object, argument for the model, keys whose value order is set-derived)"""
    form, data = spec[0], spec[1]
    unordered = set()
    try:
        if form == "pairs":
            pairs = [(str(k), str(v)) for k, v in data]
            return list(pairs), list(pairs), unordered
        if form == "dict":
            d = {str(k): str(v) for k, v in data}
            return dict(d), dict(d), unordered
        d_real, d_model = {}, {}
        for k, vs in data:
            vs = [str(v) for v in vs]
            if form == "dict_tuples":
                d_real[str(k)] = tuple(vs)
            elif form == "dict_sets":
                # one element only: the order of a larger set is not part of anybody's contract
                vs = vs[:1]
                d_real[str(k)] = set(vs)
            else:
                d_real[str(k)] = list(vs)
            d_model[str(k)] = list(vs)
        return d_real, d_model, unordered
    except (TypeError, ValueError):
        return [], [], unordered


# ---------------------------------------------------------------------------
# MultiDict family


def read_md(d, is_combined=False):
    out = {}
    for k in KEYS:
        out[f"[{k}]"] = guard(lambda: d[k])
        out[f"get({k})"] = guard(lambda: d.get(k))
        out[f"get({k},D)"] = guard(lambda: d.get(k, "D"))
        out[f"get({k},type=int)"] = guard(lambda: d.get(k, type=conv_int))
        out[f"get({k},D,type=int)"] = guard(lambda: d.get(k, "D", type=conv_int))
        out[f"getlist({k})"] = guard(lambda: d.getlist(k))
        out[f"getlist({k},type=int)"] = guard(lambda: d.getlist(k, type=conv_int))
        out[f"{k} in"] = guard(lambda: k in d)
    out["items()"] = guard(lambda: list(d.items()))
    out["items(multi)"] = guard(lambda: list(d.items(multi=True)))
    out["keys()"] = guard(lambda: list(d.keys()))
    out["iter"] = guard(lambda: list(d))
    out["values()"] = guard(lambda: list(d.values()))
    out["lists()"] = guard(lambda: [(k, list(v)) for k, v in d.lists()])
    out["listvalues()"] = guard(lambda: [list(v) for v in d.listvalues()])
    out["len"] = guard(lambda: len(d))
    out["bool"] = guard(lambda: bool(len(d)))
    out["to_dict()"] = guard(lambda: d.to_dict())
    out["to_dict(flat=False)"] = guard(lambda: {k: list(v) for k, v in d.to_dict(flat=False).items()})
    return out


def read_md_model(m: MDModel, subs=None):
    out = {}
    for k in KEYS:
        out[f"[{k}]"] = m.getitem(k)
        out[f"get({k})"] = m.get(k)
        out[f"get({k},D)"] = m.get(k, "D")
        if subs is None:
            out[f"get({k},type=int)"] = m.get(k, None, conv_int)
            out[f"get({k},D,type=int)"] = m.get(k, "D", conv_int)
        else:
            # documented for the combined view: the first wrapped dict whose value converts wins
            def first(default):
                for s in subs:
                    v = s.getitem(k)
                    if v is not KEYERROR:
                        try:
                            return conv_int(v)
                        except (ValueError, TypeError):
                            continue
                return default
            out[f"get({k},type=int)"] = first(None)
            out[f"get({k},D,type=int)"] = first("D")
        out[f"getlist({k})"] = m.getlist(k)
        out[f"getlist({k},type=int)"] = m.getlist(k, conv_int)
        out[f"{k} in"] = k in m.d
    out["items()"] = m.items()
    out["items(multi)"] = m.items(True)
    out["keys()"] = m.keys()
    out["iter"] = out["keys()"]
    out["values()"] = m.values()
    out["lists()"] = m.lists()
    out["listvalues()"] = m.listvalues()
    out["len"] = len(m.d)
    out["bool"] = bool(m.d)
    out["to_dict()"] = m.to_dict()
    out["to_dict(flat=False)"] = m.to_dict(False)
    return out


MD_OPS = [
    "setitem", "setitem", "add", "add", "add", "setlist", "setlist_empty", "setdefault", "setlistdefault", "update", "update", "ior", "or",
    "delitem", "pop", "pop_default", "popitem", "poplist", "popitemlist", "clear",
    "copy", "copy_copy", "deepcopy", "pickle", "freeze", "conv_raises", "immutable_mutate",
]


class MultiDictHistory(Scenario):
    pid = "C08"
    name = "c08_multidict"
    cases = {"quick": 60000, "thorough": 250000}
    chunk = 500
    real = "werkzeug.datastructures MultiDict, ImmutableMultiDict, CombinedMultiDict, FileMultiDict (copy / deepcopy / pickle included)"
    stubs = "the operation history; reference model refmodels/containers.MDModel"
    rule = "non-trivial = at least two mutating operations; distinct = (constructor form, operation sequence with arguments)"

    def generate(self, rng: random.Random, tier: str) -> dict:
        n = rng.randrange(1, 15 if tier == "quick" else 41)
        ops = []
        for _ in range(n):
            op = rng.choice(MD_OPS)
            ops.append([rng.randrange(4), op, rng.choice(KEYS), rng.choice(VALS), rng.choice(VALS), gen_arg(rng) if op in ("update", "ior", "or") else None])
        return {"cls": rng.choice(["MultiDict", "MultiDict", "FileMultiDict"]), "init": gen_arg(rng), "init_b": gen_arg(rng), "init_from_multidict": rng.random() < 0.2, "ops": ops}

    def execute(self, case: dict) -> Outcome:
        from werkzeug import datastructures as ds

        out = Outcome()
        tr = Trace()
        pre = f"{self.pid}/{self.name}"
        cls = ds.FileMultiDict if case.get("cls") == "FileMultiDict" else ds.MultiDict
        ra, ma, _ = build_arg(case.get("init") or ["pairs", []])
        rb, mb, _ = build_arg(case.get("init_b") or ["pairs", []])
        try:
            a = cls(ds.MultiDict(ra)) if case.get("init_from_multidict") else cls(ra)
            b = ds.MultiDict(rb)
        except Exception as e:  # noqa: BLE001
            out.violate(f"{pre}/constructor-raises/{type(e).__name__}", f"{cls.__name__}({ra!r}): {e}")
            return self.done(out, tr, case, [])
        slots = [[a, MDModel(ma), cls.__name__], [b, MDModel(mb), "MultiDict"]]
        comb = ds.CombinedMultiDict([a, b])
        frozen: list = []  # (ImmutableMultiDict, model snapshot, hash)
        done_ops: list[str] = []
        d3: list = []

        def check(after: str) -> bool:
            for i, (real, model, name) in enumerate(slots):
                if not self.compare(out, pre, name, read_md(real), read_md_model(model), after):
                    return False
            cm = combined([slots[0][1], slots[1][1]])
            got_c, want_c = read_md(comb, True), read_md_model(cm, [slots[0][1], slots[1][1]])
            if any(not vs for sl in slots[:2] for vs in sl[1].d.values()):
                # a wrapped dict holds a key without values: single-key reads, keys(), len() and membership are still
                # defined, but in which order (and whether) such a key shows up in the value views is not
                def loose(d_):
                    for view in ("items()", "items(multi)", "values()"):
                        if isinstance(d_.get(view), list):
                            d_[view] = sorted(map(repr, d_[view]))
                    for view in ("lists()", "listvalues()"):
                        if isinstance(d_.get(view), list):
                            d_[view] = sorted(repr(x) for x in d_[view] if (x[1] if view == "lists()" else x))
                    if isinstance(d_.get("to_dict(flat=False)"), dict):
                        d_["to_dict(flat=False)"] = {k_: v_ for k_, v_ in d_["to_dict(flat=False)"].items() if v_}

                loose(got_c)
                loose(want_c)
                out.probe("combined_view_over_key_without_values")
            if not self.compare(out, pre, "CombinedMultiDict", got_c, want_c, after):
                return False
            # a plain mapping may be wrapped as well (single-key reads go through item access only)
            plain = {k_: vs[0] for k_, vs in slots[0][1].d.items() if vs}
            cp = ds.CombinedMultiDict([plain, slots[1][0]])
            for k_ in KEYS:
                want_v = plain[k_] if k_ in plain else slots[1][1].getitem(k_)
                got_v = guard(lambda: cp[k_])
                got_g = guard(lambda: cp.get(k_, "D"))
                if got_v != want_v or got_g != ("D" if want_v is KEYERROR else want_v):
                    out.violate(f"{pre}/CombinedMultiDict/plain-mapping-wrapped/[k]-differs", f"[{k_}] -> {got_v!r}, get -> {got_g!r}, expected {want_v!r} over {plain!r} and {slots[1][1].d!r}")
                    return False
            # equality and hashing of the view must be consistent with each other
            # (fresh views: the long-lived one may have cached a hash before the wrapped dicts changed)
            empty = ds.CombinedMultiDict([])
            v1 = ds.CombinedMultiDict([slots[0][0], slots[1][0]])
            v2 = ds.CombinedMultiDict([slots[0][0], slots[1][0]])
            if not (v1 == v2) or hash(v1) != hash(v2):
                out.violate(f"{pre}/CombinedMultiDict/equal-views-differ-in-eq-or-hash/after={after}", f"{v1!r}")
                return False
            if (v1 == empty) and hash(v1) != hash(empty) and not any(c.endswith("eq-true-but-hash-differs") for c, _ in out.violations):
                # recorded finding D3: noted once, the rest of the history is still checked
                d3.append((f"{pre}/CombinedMultiDict/eq-true-but-hash-differs", f"{v1!r} == CombinedMultiDict([]) is True while their hashes differ"))
            for imm, snap, h in frozen:
                if not self.compare(out, pre, "ImmutableMultiDict", read_md(imm), read_md_model(snap), after):
                    return False
                if guard(lambda: hash(imm)) != h:
                    out.violate(f"{pre}/ImmutableMultiDict/hash-changed/after={after}", "the hash of an immutable snapshot changed")
                    return False
            return True

        check("construction")
        for op in case.get("ops", []):
            if out.violations:
                break
            if not (isinstance(op, list) and len(op) >= 5):
                continue
            si, name, k, v, v2 = op[0], op[1], str(op[2]), str(op[3]), str(op[4])
            arg = op[5] if len(op) > 5 else None
            si = si % len(slots) if isinstance(si, int) else 0
            real, model, cname = slots[si]
            under_view = si < 2
            res = exp = None
            try:
                if name == "setitem":
                    real[k] = v
                    model.setitem(k, v)
                elif name == "add":
                    real.add(k, v)
                    model.add(k, v)
                elif name == "setlist":
                    real.setlist(k, [v, v2])
                    model.setlist(k, [v, v2])
                elif name == "setlist_empty":
                    real.setlist(k, [])
                    model.setlist(k, [])
                elif name == "setdefault":
                    res, exp = guard(lambda: real.setdefault(k, v)), model.setdefault(k, v)
                elif name == "setlistdefault":
                    given = [v, v2]
                    res, exp = list(real.setlistdefault(k, given)), model.setlistdefault(k, [v, v2])
                    given.append("changed-by-the-caller-afterwards")  # the argument is copied, only the returned list is live
                elif name in ("update", "ior", "or"):
                    r_arg, m_arg, _ = build_arg(arg or ["pairs", []])
                    if name == "update":
                        real.update(r_arg)
                        model.update(m_arg)
                    elif name == "ior":
                        real |= r_arg
                        slots[si][0] = real
                        model.update(m_arg)
                    else:
                        if not isinstance(r_arg, dict):
                            r_arg, m_arg = dict(r_arg), dict(m_arg)
                        new = real | r_arg
                        nm = model.copy()
                        nm.update(m_arg)
                        if len(slots) < 5:
                            slots.append([new, nm, type(new).__name__])
                        if type(new) is not type(real):
                            out.violate(f"{pre}/{cname}/or-returns-{type(new).__name__}", f"{cname} | dict returned {type(new).__name__}")
                elif name == "delitem":
                    res = guard(lambda: real.__delitem__(k))
                    exp = model.delitem(k)
                elif name == "pop":
                    res, exp = guard(lambda: real.pop(k)), model.pop(k)
                elif name == "pop_default":
                    res, exp = guard(lambda: real.pop(k, "D")), model.pop(k, "D")
                elif name == "popitem":
                    res, exp = guard(lambda: real.popitem()), model.popitem()
                elif name == "poplist":
                    res, exp = guard(lambda: real.poplist(k)), model.poplist(k)
                elif name == "popitemlist":
                    res = guard(lambda: real.popitemlist())
                    exp = model.popitemlist()
                    if res is not KEYERROR and isinstance(res, tuple):
                        res = (res[0], list(res[1]))
                elif name == "clear":
                    real.clear()
                    model.clear()
                elif name in ("copy", "copy_copy", "deepcopy", "pickle"):
                    if name in ("deepcopy", "pickle") and cls is ds.FileMultiDict:
                        # the file variant holding an uploaded file: copies are independent and carry name, type and bytes
                        import io

                        fmd = ds.FileMultiDict()
                        fmd.add_file(k, io.BytesIO(v.encode()), filename=f"{v}.txt", content_type="text/plain")
                        fmd.add(k, v2)
                        try:
                            dup = copy.deepcopy(fmd) if name == "deepcopy" else pickle.loads(pickle.dumps(fmd))
                            f0, f1 = dup.getlist(k)[0], fmd.getlist(k)[0]
                            facts = (f0.filename, f0.content_type, f0.name, f0.stream.read(), dup.getlist(k)[1], f0 is not f1, f0.stream is not f1.stream, f1.stream.read())
                        except Exception as e:  # noqa: BLE001
                            out.violate(f"{pre}/FileMultiDict/{name}-with-file-raises/{type(e).__name__}", f"{type(e).__name__}: {str(e)[:100]}")
                            break
                        if facts != (f"{v}.txt", "text/plain", k, v.encode(), v2, True, True, v.encode()):
                            out.violate(f"{pre}/FileMultiDict/{name}-with-file-differs", f"{facts!r}")
                            break
                        out.probe("file_variant_copied_with_file")
                    if name == "deepcopy" and any(not vs for vs in model.d.values()):
                        continue  # a key without values is outside the multimap model (deepcopy drops it, copy and pickle keep it)
                    if name == "copy":
                        new = real.copy()
                    elif name == "copy_copy":
                        new = copy.copy(real)
                    elif name == "deepcopy":
                        new = copy.deepcopy(real)
                    else:
                        new = pickle.loads(pickle.dumps(real, rng_protocol(v)))
                    out.fault("copy_or_pickle_restart")
                    if not (new == real and real == new):
                        out.violate(f"{pre}/{cname}/{name}-not-equal-to-original", f"{name}() of {real!r} gave {new!r} which does not compare equal")
                        break
                    if new is real:
                        out.violate(f"{pre}/{cname}/{name}-returns-same-object", "")
                        break
                    if len(slots) < 5:
                        slots.append([new, model.copy(), type(new).__name__])
                    # views and snapshots restart too
                    if name in ("deepcopy", "pickle") and si == 0:
                        for what, f in (("deepcopy", copy.deepcopy), ("pickle", lambda o: pickle.loads(pickle.dumps(o)))):
                            if what != name:
                                continue
                            try:
                                c2 = f(comb)
                            except Exception as e:  # noqa: BLE001
                                out.violate(f"{pre}/CombinedMultiDict/{what}-raises/{type(e).__name__}", f"{e}")
                                break
                            cm = combined([slots[0][1], slots[1][1]])
                            if any(not vs for sl in slots[:2] for vs in sl[1].d.values()):
                                continue  # (what a copy does with a key that has no values is observation O3, not modelled)
                            if not self.compare(out, pre, "CombinedMultiDict", read_md(c2, True), read_md_model(cm, [slots[0][1], slots[1][1]]), f"{what}-of-view"):
                                break
                elif name == "freeze":
                    if any(not vs for vs in model.d.values()):
                        continue
                    imm = ds.ImmutableMultiDict(real)
                    h = guard(lambda: hash(imm))
                    snap = model.copy()
                    if len(frozen) < 2:
                        frozen.append((imm, snap, h))
                    imm2 = ds.ImmutableMultiDict(real)
                    if not (imm == imm2) or hash(imm) != hash(imm2):
                        out.violate(f"{pre}/ImmutableMultiDict/equal-snapshots-differ-in-eq-or-hash", f"{imm!r}")
                    # the same content reached through another history (keys inserted in the opposite order)
                    rev = [(kk, vv) for kk in reversed(list(real.keys())) for vv in real.getlist(kk)]
                    for icls, a1, a2 in (
                        (ds.ImmutableMultiDict, list(real.items(multi=True)), rev),
                        (ds.ImmutableDict, list(real.items()), list(reversed(list(real.items())))),
                        (ds.ImmutableTypeConversionDict, list(real.items()), list(reversed(list(real.items())))),
                    ):
                        i1, i2 = icls(a1), icls(a2)
                        if i1 == i2 and guard(lambda: hash(i1)) != guard(lambda: hash(i2)):
                            out.violate(f"{pre}/{icls.__name__}/eq-true-but-hash-differs", f"{i1!r} == {i2!r} while their hashes differ")
                    for what, f in (("copy.copy", copy.copy), ("deepcopy", copy.deepcopy), ("pickle", lambda o: pickle.loads(pickle.dumps(o)))):
                        c2 = f(imm)
                        if not (c2 == imm) or guard(lambda: hash(c2)) != h:
                            out.violate(f"{pre}/ImmutableMultiDict/{what}-inconsistent-eq-or-hash", f"{c2!r} vs {imm!r}")
                    mc = imm.copy()
                    if type(mc) is not ds.MultiDict or not self.compare(out, pre, "ImmutableMultiDict.copy()", read_md(mc), read_md_model(snap), "freeze"):
                        if not out.violations:
                            out.violate(f"{pre}/ImmutableMultiDict/copy-not-a-mutable-MultiDict", type(mc).__name__)
                elif name == "conv_raises":
                    res = guard(lambda: real.get(k, type=conv_boom))
                    exp = "<Boom>" if model.getitem(k) is not KEYERROR else None
                    out.fault("converter_raises")
                elif name == "immutable_mutate":
                    targets = [("CombinedMultiDict", comb)] + [("ImmutableMultiDict", f[0]) for f in frozen]
                    for tname, tobj in targets:
                        for mname, f in self.mutators(tobj, k, v):
                            try:
                                f()
                                r = "no error"
                            except TypeError:
                                r = "TypeError"
                            except Exception as e:  # noqa: BLE001
                                r = type(e).__name__
                            if r != "TypeError":
                                out.violate(f"{pre}/{tname}/mutator-{mname}-gives-{r}", f"{tname}.{mname} must raise TypeError")
                    out.probe("immutable_mutators_tried")
                else:
                    continue
            except Exception as e:  # noqa: BLE001
                out.violate(f"{pre}/{cname}/{name}-raises/{type(e).__name__}", f"{name}({k!r}, {v!r}) on {real!r}: {type(e).__name__}: {e}")
                break
            done_ops.append(name)
            tr.add("op", si, name, k, v, "->", res)
            if res != exp:
                out.violate(f"{pre}/{cname}/{name}-returns-wrong-value", f"{name}({k!r}) returned {res!r}, the model says {exp!r}")
                break
            if not out.violations:
                check(name)
        for c, msg in d3[:1]:
            out.violate(c, msg)
        return self.done(out, tr, case, done_ops)

    @staticmethod
    def mutators(obj, k, v):
        return [
            ("__setitem__", lambda: obj.__setitem__(k, v)), ("__delitem__", lambda: obj.__delitem__(k)), ("add", lambda: obj.add(k, v)),
            ("setlist", lambda: obj.setlist(k, [v])), ("setdefault", lambda: obj.setdefault(k, v)), ("setlistdefault", lambda: obj.setlistdefault(k, [v])),
            ("update", lambda: obj.update({k: v})), ("pop", lambda: obj.pop(k)), ("popitem", lambda: obj.popitem()), ("poplist", lambda: obj.poplist(k)),
            ("popitemlist", lambda: obj.popitemlist()), ("clear", lambda: obj.clear()), ("__ior__", lambda: obj.__ior__({k: v})),
        ]

    def compare(self, out, pre, cname, got, want, after) -> bool:
        for key in want:
            if got.get(key) != want[key]:
                read = key
                for kk in KEYS:
                    read = read.replace(f"({kk}", "(k").replace(f"[{kk}]", "[k]").replace(f"{kk} in", "k in")
                if not out.violations:
                    out.violate(f"{pre}/{cname}/{read}-differs/after={after}", f"{key} -> {got.get(key)!r}, the model says {want[key]!r}")
                return False
        return True

    def done(self, out, tr, case, done_ops):
        out.digest = tr.digest()
        out.trace = tr.events
        out.steps = len(done_ops)
        muts = [o for o in done_ops if o not in ("copy", "copy_copy", "deepcopy", "pickle", "freeze", "conv_raises", "immutable_mutate")]
        out.nontrivial = len(muts) >= 2
        out.key = repr((case.get("cls"), case.get("init"), case.get("init_b"), case.get("ops")))
        out.config = f"len={min(len(done_ops), 40) // 5 * 5}+"
        return out


def rng_protocol(v: str) -> int:
    return {"1": 2, "2": 4, "x": 5}.get(v, pickle.DEFAULT_PROTOCOL)


# ---------------------------------------------------------------------------
# Headers / EnvironHeaders


def read_h(h):
    out = {}
    for k in KEYS:
        out[f"[{k}]"] = guard(lambda: h[k])
        out[f"get({k})"] = guard(lambda: h.get(k))
        out[f"get({k},D,type=int)"] = guard(lambda: h.get(k, "D", type=conv_int))
        out[f"getlist({k})"] = guard(lambda: h.getlist(k))
        out[f"get_all({k})"] = guard(lambda: h.get_all(k))
        out[f"getlist({k},type=int)"] = guard(lambda: h.getlist(k, type=conv_int))
        out[f"{k} in"] = guard(lambda: k in h)
    out["list"] = guard(lambda: list(h))
    out["items()"] = guard(lambda: list(h.items()))
    out["items(lower)"] = guard(lambda: list(h.items(lower=True)))
    out["keys()"] = guard(lambda: list(h.keys()))
    out["keys(lower)"] = guard(lambda: list(h.keys(lower=True)))
    out["values()"] = guard(lambda: list(h.values()))
    out["len"] = guard(lambda: len(h))
    out["to_wsgi_list()"] = guard(lambda: h.to_wsgi_list())
    out["[0]"] = guard(lambda: h[0])
    out["[-1]"] = guard(lambda: h[-1])
    out["[1:3]"] = guard(lambda: list(h[1:3]))
    out["str"] = guard(lambda: str(h))
    return out


def read_h_model(m: HeadersModel):
    out = {}
    for k in KEYS:
        out[f"[{k}]"] = m.getitem(k)
        out[f"get({k})"] = m.get(k)
        out[f"get({k},D,type=int)"] = m.get(k, "D", conv_int)
        out[f"getlist({k})"] = m.getlist(k)
        out[f"get_all({k})"] = m.getlist(k)
        out[f"getlist({k},type=int)"] = m.getlist(k, conv_int)
        out[f"{k} in"] = m.contains(k)
    out["list"] = list(m.l)
    out["items()"] = list(m.l)
    out["items(lower)"] = [(k.lower(), v) for k, v in m.l]
    out["keys()"] = [k for k, _ in m.l]
    out["keys(lower)"] = [k.lower() for k, _ in m.l]
    out["values()"] = [v for _, v in m.l]
    out["len"] = len(m.l)
    out["to_wsgi_list()"] = list(m.l)
    out["[0]"] = m.l[0] if m.l else "<IndexError>"
    out["[-1]"] = m.l[-1] if m.l else "<IndexError>"
    out["[1:3]"] = m.l[1:3]
    out["str"] = "".join(f"{k}: {v}\r\n" for k, v in m.l) + "\r\n"
    return out


H_OPS = [
    "add", "add", "add_header", "set", "set", "setlist", "setlist_empty", "setdefault", "setlistdefault", "extend", "extend_headers", "extend_kw", "update", "update_headers", "update_md", "ior", "or",
    "remove", "del_key", "del_idx", "del_slice", "pop_key", "pop_key_default", "pop_idx", "pop", "popitem", "setitem", "setitem_idx", "setitem_slice", "clear",
    "copy", "copy_copy", "deepcopy", "pickle", "environ_set", "environ_del", "environ_mutate", "index_error",
]


class HeadersHistory(Scenario):
    pid = "C08"
    name = "c08_headers"
    cases = {"quick": 60000, "thorough": 250000}
    chunk = 500
    real = "werkzeug.datastructures Headers and EnvironHeaders (copy / deepcopy / pickle included)"
    stubs = "the operation history; the environ the history mutates; reference model HeadersModel"
    rule = "non-trivial = at least two mutating operations; distinct = (constructor input, operation sequence with arguments)"

    def generate(self, rng: random.Random, tier: str) -> dict:
        n = rng.randrange(1, 15 if tier == "quick" else 41)
        ops = []
        for _ in range(n):
            op = rng.choice(H_OPS)
            ops.append([rng.randrange(3), op, rng.choice(KEYS), rng.choice(VALS), rng.choice(VALS), gen_arg(rng) if op in ("extend", "update", "ior", "or", "update_md") else None, rng.randrange(-1, 4)])
        return {"init": gen_arg(rng), "ops": ops}

    def execute(self, case: dict) -> Outcome:
        from werkzeug import datastructures as ds

        out = Outcome()
        tr = Trace()
        pre = f"{self.pid}/{self.name}"
        r0, m0, _ = build_arg(case.get("init") or ["pairs", []])
        try:
            h = ds.Headers(r0)
        except Exception as e:  # noqa: BLE001
            out.violate(f"{pre}/constructor-raises/{type(e).__name__}", f"Headers({r0!r}): {e}")
            return self.done(out, tr, case, [])
        hm = HeadersModel()
        hm.extend(m0)
        slots = [[h, hm]]
        environ = {"wsgi.version": (1, 0), "REQUEST_METHOD": "GET", "HTTP_A": "1", "CONTENT_TYPE": "x"}
        eh = ds.EnvironHeaders(environ)
        done_ops: list[str] = []

        def env_model() -> HeadersModel:
            m = HeadersModel()
            for k, v in environ.items():
                if not isinstance(v, str):
                    continue
                if k.startswith("HTTP_") and k not in ("HTTP_CONTENT_TYPE", "HTTP_CONTENT_LENGTH"):
                    m.add(k[5:].replace("_", "-").title(), v)
                elif k in ("CONTENT_TYPE", "CONTENT_LENGTH") and v:
                    m.add(k.replace("_", "-").title(), v)
            return m

        def check(after: str) -> bool:
            for real, model in slots:
                if not self.compare(out, pre, "Headers", read_h(real), read_h_model(model), after):
                    return False
            # index and slice access are Headers features; the environ-backed view is keyed by name only
            skip = ("[0]", "[-1]", "[1:3]")
            if not self.compare(out, pre, "EnvironHeaders", {k: v for k, v in read_h(eh).items() if k not in skip}, {k: v for k, v in read_h_model(env_model()).items() if k not in skip}, after):
                return False
            return True

        check("construction")
        for op in case.get("ops", []):
            if out.violations:
                break
            if not (isinstance(op, list) and len(op) >= 7):
                continue
            si, name, k, v, v2, arg, idx = op[0], op[1], str(op[2]), str(op[3]), str(op[4]), op[5], op[6]
            si = si % len(slots) if isinstance(si, int) else 0
            idx = idx if isinstance(idx, int) else 0
            real, model = slots[si]
            res = exp = None
            n = len(model.l)
            try:
                if name in ("add", "add_header"):
                    getattr(real, name)(k, v)
                    model.add(k, v)
                elif name == "set":
                    real.set(k, v)
                    model.set(k, v)
                elif name == "setitem":
                    real[k] = v
                    model.set(k, v)
                elif name == "setlist":
                    real.setlist(k, [v, v2])
                    model.setlist(k, [v, v2])
                elif name == "setlist_empty":
                    real.setlist(k, [])
                    model.setlist(k, [])
                elif name == "setdefault":
                    res, exp = real.setdefault(k, v), model.setdefault(k, v)
                elif name == "setlistdefault":
                    res, exp = real.setlistdefault(k, [v, v2]), model.setlistdefault(k, [v, v2])
                elif name in ("extend", "update", "ior", "or", "update_md"):
                    r_arg, m_arg, _ = build_arg(arg or ["pairs", []])
                    if name == "extend":
                        real.extend(r_arg)
                        model.extend(m_arg)
                    elif name == "update":
                        real.update(r_arg)
                        model.update(m_arg)
                    elif name == "update_md":
                        real.update(ds.MultiDict(r_arg))
                        model.update(MDModel(m_arg))
                    elif name == "ior":
                        real |= r_arg
                        slots[si][0] = real
                        model.update(m_arg)
                    else:
                        if not isinstance(r_arg, dict):
                            r_arg, m_arg = dict(r_arg), dict(m_arg)
                        new = real | r_arg
                        nm = model.copy()
                        nm.update(m_arg)
                        if len(slots) < 4:
                            slots.append([new, nm])
                elif name in ("extend_headers", "update_headers"):
                    other = slots[(si + 1) % len(slots)]
                    snapshot = other[1].copy()
                    if name == "extend_headers":
                        real.extend(other[0].copy())
                        model.extend(snapshot)
                    else:
                        real.update(other[0].copy())
                        model.update(snapshot)
                elif name == "extend_kw":
                    real.extend(**{"b": v, "x_y": v2})
                    model.add("b", v)
                    model.add("x_y", v2)
                elif name == "remove":
                    real.remove(k)
                    model.remove(k)
                elif name == "del_key":
                    del real[k]
                    model.remove(k)
                elif name == "del_idx":
                    res = guard(lambda: real.__delitem__(idx))
                    if -n <= idx < n:
                        del model.l[idx]
                    else:
                        exp = "<IndexError>"
                elif name == "del_slice":
                    del real[idx : idx + 2]
                    del model.l[idx : idx + 2]
                elif name == "pop_key":
                    res, exp = guard(lambda: real.pop(k)), model.pop_key(k)
                elif name == "pop_key_default":
                    res, exp = guard(lambda: real.pop(k, "D")), model.pop_key(k, "D")
                elif name == "pop_idx":
                    res = guard(lambda: real.pop(idx))
                    exp = model.l.pop(idx) if -n <= idx < n else "<IndexError>"
                elif name in ("pop", "popitem"):
                    res = guard(lambda: getattr(real, name)())
                    exp = model.l.pop() if model.l else "<IndexError>"
                elif name == "setitem_idx":
                    res = guard(lambda: real.__setitem__(idx, (k, v)))
                    if -n <= idx < n:
                        model.l[idx] = (k, v)
                    else:
                        exp = "<IndexError>"
                elif name == "setitem_slice":
                    real[idx : idx + 1] = [(k, v), (k, v2)]
                    model.l[idx : idx + 1] = [(k, v), (k, v2)]
                elif name == "clear":
                    real.clear()
                    model.l = []
                elif name in ("copy", "copy_copy", "deepcopy", "pickle"):
                    new = {"copy": lambda: real.copy(), "copy_copy": lambda: copy.copy(real), "deepcopy": lambda: copy.deepcopy(real), "pickle": lambda: pickle.loads(pickle.dumps(real))}[name]()
                    out.fault("copy_or_pickle_restart")
                    if not (new == real) or new is real or type(new) is not ds.Headers:
                        out.violate(f"{pre}/Headers/{name}-inconsistent", f"{name}() gave {new!r} for {real!r}")
                        break
                    if len(slots) < 4:
                        slots.append([new, model.copy()])
                elif name == "environ_set":
                    environ["HTTP_" + k.upper().replace("-", "_")] = v
                elif name == "environ_del":
                    environ.pop("HTTP_" + k.upper().replace("-", "_"), None)
                    if v == "x":
                        environ["CONTENT_LENGTH"] = v2
                elif name == "environ_mutate":
                    for mname, f in [("__setitem__", lambda: eh.__setitem__(k, v)), ("add", lambda: eh.add(k, v)), ("set", lambda: eh.set(k, v)), ("remove", lambda: eh.remove(k)), ("__delitem__", lambda: eh.__delitem__(k)), ("pop", lambda: eh.pop(k)), ("popitem", lambda: eh.popitem()), ("clear", lambda: eh.clear()), ("extend", lambda: eh.extend({k: v})), ("update", lambda: eh.update({k: v})), ("setdefault", lambda: eh.setdefault(k, v)), ("setlist", lambda: eh.setlist(k, [v])), ("setlistdefault", lambda: eh.setlistdefault(k, [v])), ("add_header", lambda: eh.add_header(k, v)), ("insert", lambda: eh.insert(0, (k, v)) if hasattr(eh, "insert") else (_ for _ in ()).throw(TypeError())), ("__ior__", lambda: eh.__ior__({k: v}))]:
                        try:
                            f()
                            r = "no error"
                        except TypeError:
                            r = "TypeError"
                        except Exception as e:  # noqa: BLE001
                            r = type(e).__name__
                        if r != "TypeError":
                            out.violate(f"{pre}/EnvironHeaders/mutator-{mname}-gives-{r}", "immutable view must raise TypeError")
                    out.probe("immutable_mutators_tried")
                elif name == "index_error":
                    res, exp = guard(lambda: real[99]), "<IndexError>"
                else:
                    continue
            except Exception as e:  # noqa: BLE001
                out.violate(f"{pre}/Headers/{name}-raises/{type(e).__name__}", f"{name}({k!r}, {v!r}, idx={idx}) on {real!r}: {type(e).__name__}: {e}")
                break
            done_ops.append(name)
            tr.add("op", si, name, k, v, idx, "->", res)
            if res != exp:
                out.violate(f"{pre}/Headers/{name}-returns-wrong-value", f"{name}({k!r}, idx={idx}) returned {res!r}, the model says {exp!r}")
                break
            check(name)
        return self.done(out, tr, case, done_ops)

    compare = MultiDictHistory.compare

    def done(self, out, tr, case, done_ops):
        out.digest = tr.digest()
        out.trace = tr.events
        out.steps = len(done_ops)
        muts = [o for o in done_ops if o not in ("copy", "copy_copy", "deepcopy", "pickle", "environ_mutate", "index_error")]
        out.nontrivial = len(muts) >= 2
        out.key = repr((case.get("init"), case.get("ops")))
        out.config = f"len={min(len(done_ops), 40) // 5 * 5}+"
        return out


# ---------------------------------------------------------------------------
# HeaderSet

HS_ITEMS = ["foo", "Foo", "FOO", "bar", "Bar", "b a", "x"]
HS_OPS = ["add", "add", "add", "remove", "remove", "discard", "update", "clear", "setitem", "delitem", "index", "find", "copy_via_list", "pickle", "deepcopy"]


class HeaderSetHistory(Scenario):
    pid = "C08"
    name = "c08_headerset"
    cases = {"quick": 40000, "thorough": 200000}
    chunk = 500
    real = "werkzeug.datastructures.HeaderSet (incl. on_update callback)"
    stubs = "the operation history; reference model HeaderSetModel"
    rule = "non-trivial = at least two mutating operations; distinct = (constructor input, operation sequence)"

    def generate(self, rng: random.Random, tier: str) -> dict:
        n = rng.randrange(1, 12 if tier == "quick" else 30)
        return {"init": [rng.choice(HS_ITEMS) for _ in range(rng.choice([0, 1, 2, 3]))], "ops": [[rng.choice(HS_OPS), rng.choice(HS_ITEMS), rng.choice(HS_ITEMS), rng.randrange(-1, 3)] for _ in range(n)]}

    def reads(self, s):
        return {
            "list": guard(lambda: list(s)), "len": guard(lambda: len(s)), "bool": guard(lambda: bool(s)), "to_header": guard(lambda: s.to_header()), "str": guard(lambda: str(s)),
            "as_set": guard(lambda: sorted(s.as_set())), "as_set(preserve)": guard(lambda: sorted(s.as_set(preserve_casing=True))),
            **{f"{i} in": guard(lambda i=i: i in s) for i in HS_ITEMS}, **{f"find({i})": guard(lambda i=i: s.find(i)) for i in HS_ITEMS},
            "[0]": guard(lambda: s[0]), "[-1]": guard(lambda: s[-1]),
        }

    def model_reads(self, m: HeaderSetModel):
        return {
            "list": list(m.l), "len": len(m.l), "bool": bool(m.l), "to_header": m.to_header(), "str": m.to_header(),
            "as_set": sorted({x.lower() for x in m.l}), "as_set(preserve)": sorted(set(m.l)),
            **{f"{i} in": m.find(i) >= 0 for i in HS_ITEMS}, **{f"find({i})": m.find(i) for i in HS_ITEMS},
            "[0]": m.l[0] if m.l else "<IndexError>", "[-1]": m.l[-1] if m.l else "<IndexError>",
        }

    def execute(self, case: dict) -> Outcome:
        from werkzeug.datastructures import HeaderSet

        out = Outcome()
        tr = Trace()
        pre = f"{self.pid}/{self.name}"
        init = [str(x) for x in case.get("init", []) if isinstance(x, str)]
        calls = {"n": 0}

        def on_update(_):
            calls["n"] += 1

        s = HeaderSet(init, on_update)
        m = HeaderSetModel(init)
        done_ops: list[str] = []

        def check(after):
            got, want = self.reads(s), self.model_reads(m)
            for key in want:
                if got[key] != want[key]:
                    rk = key
                    for i in HS_ITEMS:
                        rk = rk.replace(f"({i})", "(x)").replace(f"{i} in", "x in")
                    out.violate(f"{pre}/HeaderSet/{rk}-differs/after={after}", f"{key} -> {got[key]!r}, the model says {want[key]!r} (items {list(s)!r})")
                    return False
            return True

        check("construction")
        for op in case.get("ops", []):
            if out.violations:
                break
            if not (isinstance(op, list) and len(op) >= 4):
                continue
            name, a, b, idx = op[0], str(op[1]), str(op[2]), op[3] if isinstance(op[3], int) else 0
            before = calls["n"]
            changed = None
            res = exp = None
            n = len(m.l)
            try:
                if name == "add":
                    s.add(a)
                    changed = m.add(a)
                elif name == "remove":
                    res = guard(lambda: s.remove(a))
                    r = m.remove(a)
                    exp = KEYERROR if r is KEYERROR else None
                    changed = r is True
                elif name == "discard":
                    s.discard(a)
                    changed = m.discard(a)
                elif name == "update":
                    s.update([a, b])
                    changed = m.update([a, b])
                elif name == "clear":
                    s.clear()
                    m.clear()
                    changed = None  # clearing an empty set may or may not notify
                elif name == "setitem":
                    if not (-n <= idx < n):
                        continue
                    other = m.find(a)
                    if other >= 0 and other != idx % n:
                        # assigning a name that is already another member: where it ends up is not specified, but the
                        # result must still be a set - unique names, consistent length and membership, nothing else lost
                        s[idx] = a
                        got = list(s)
                        want = [x for j, x in enumerate(m.l) if j not in (other, idx % n)]
                        lows = [x.lower() for x in got]
                        if len(set(lows)) != len(lows) or len(s) != len(got) or a not in got or sorted(x for x in got if x != a) != sorted(want) or any(x not in s for x in got):
                            out.violate(f"{pre}/HeaderSet/not-a-set-after-assigning-an-existing-member", f"{m.l!r} with [{idx}] = {a!r} became {got!r} (len {len(s)})")
                            break
                        m.l[:] = got
                        changed = True
                        out.probe("existing_member_assigned_by_index")
                    else:
                        s[idx] = a
                        changed = m.l[idx] != a
                        m.l[idx] = a
                        if not changed:
                            changed = None
                elif name == "delitem":
                    res = guard(lambda: s.__delitem__(idx))
                    if -n <= idx < n:
                        del m.l[idx]
                        changed = True
                    else:
                        exp = "<IndexError>"
                        changed = False
                elif name == "index":
                    res = guard(lambda: s.index(a))
                    exp = m.find(a) if m.find(a) >= 0 else "<IndexError>"
                elif name == "find":
                    res, exp = s.find(a), m.find(a)
                elif name in ("copy_via_list", "pickle", "deepcopy"):
                    new = {"copy_via_list": lambda: HeaderSet(list(s)), "pickle": lambda: pickle.loads(pickle.dumps(HeaderSet(list(s)))), "deepcopy": lambda: copy.deepcopy(HeaderSet(list(s)))}[name]()
                    if self.reads(new) != self.reads(s):
                        out.violate(f"{pre}/HeaderSet/{name}-reads-differ", f"{list(new)!r} vs {list(s)!r}")
                    out.fault("copy_or_pickle_restart")
                else:
                    continue
            except Exception as e:  # noqa: BLE001
                out.violate(f"{pre}/HeaderSet/{name}-raises/{type(e).__name__}", f"{name}({a!r}, idx={idx}): {type(e).__name__}: {e}")
                break
            done_ops.append(name)
            tr.add("op", name, a, b, idx, "->", res)
            if res != exp:
                out.violate(f"{pre}/HeaderSet/{name}-returns-wrong-value", f"{name}({a!r}) -> {res!r}, the model says {exp!r}")
                break
            fired = calls["n"] > before
            if changed is True and not fired:
                out.violate(f"{pre}/HeaderSet/on_update-not-called/after={name}", f"{name}({a!r}) changed the set without notifying")
                break
            if changed is False and fired:
                out.violate(f"{pre}/HeaderSet/on_update-called-without-change/after={name}", f"{name}({a!r}) did not change the set but notified")
                break
            check(name)
        out.digest = tr.digest()
        out.trace = tr.events
        out.steps = len(done_ops)
        out.nontrivial = len([o for o in done_ops if o in ("add", "remove", "discard", "update", "clear", "setitem", "delitem")]) >= 2
        out.key = repr((init, case.get("ops")))
        out.config = f"len={min(len(done_ops), 30) // 5 * 5}+"
        return out


SCENARIOS = [MultiDictHistory(), HeadersHistory(), HeaderSetHistory()]
