"""C11 - conditional and range responses are sound.

Scenario "origin and revalidating caches": a resource store whose content,
version, Last-Modified (from the simulated clock, with sub-second parts) and
ETag change at simulated times - including twice within one second; client
actors that remember validators from earlier responses and later revalidate or
ask for ranges; an application that serves the body as a list, a generator with
tape-chosen chunking (incl. empty chunks) or a file wrapper over a SimFile
(seekable or not, short reads); a server actor that iterates fully or aborts
and closes.  Oracle: the declarative reference in refmodels/conditional_ref.py
evaluated on the *current* representation at the simulated instant of the
request.
"""
from __future__ import annotations

import datetime as dt
import os
import random
import shutil
import tempfile

from dsim import clock
from dsim.core import Outcome
from dsim.core import Scenario
from dsim.core import Tape
from dsim.core import Trace
from dsim.streams import SimFile
from refmodels import conditional_ref as ref

UTC = dt.timezone.utc
EPOCH = dt.datetime(2024, 3, 1, 12, 0, 0, tzinfo=UTC)


def content_for(version: int, size: int) -> bytes:
    return bytes((i * 7 + version * 13 + (i >> 3)) % 251 for i in range(size))


def http_date(d: dt.datetime, style: int = 0) -> str:
    d = d.astimezone(UTC)
    days = ["Mon", "Tue", "Wed", "Thu", "Fri", "Sat", "Sun"]
    months = ["Jan", "Feb", "Mar", "Apr", "May", "Jun", "Jul", "Aug", "Sep", "Oct", "Nov", "Dec"]
    if style == 1:  # RFC 850
        full = ["Monday", "Tuesday", "Wednesday", "Thursday", "Friday", "Saturday", "Sunday"]
        return f"{full[d.weekday()]}, {d.day:02d}-{months[d.month - 1]}-{d.year % 100:02d} {d.hour:02d}:{d.minute:02d}:{d.second:02d} GMT"
    if style == 2:  # numeric offset other than UTC
        off = dt.timezone(dt.timedelta(hours=2))
        e = d.astimezone(off)
        return f"{days[e.weekday()]}, {e.day:02d} {months[e.month - 1]} {e.year:04d} {e.hour:02d}:{e.minute:02d}:{e.second:02d} +0200"
    return f"{days[d.weekday()]}, {d.day:02d} {months[d.month - 1]} {d.year:04d} {d.hour:02d}:{d.minute:02d}:{d.second:02d} GMT"


def gen_range(rng: random.Random, length: int) -> dict:
    k = rng.choice(["first-last", "first-last", "first-", "suffix", "suffix", "multi", "other-unit", "malformed"])
    pick = lambda: rng.choice([0, 0, 1, 2, max(0, length - 1), length, length + 1, rng.randrange(0, length + 3)])  # noqa: E731
    ws = rng.choice([0, 0, 0, 0, 1, 2, 3, 4, 5, 6])
    if k == "first-last":
        return {"kind": k, "a": pick(), "b": pick(), "ws": ws}
    if k == "first-":
        return {"kind": k, "a": pick(), "ws": ws}
    if k == "suffix":
        return {"kind": k, "n": rng.choice([0, 1, 2, max(1, length - 1), length, length + 1, 500]), "ws": ws}
    if k == "multi":
        return {"kind": k, "parts": [{"kind": "first-last", "a": 0, "b": 1}, {"kind": "first-last", "a": 3, "b": 4}] if rng.random() < 0.5 else [{"kind": "first-", "a": 1}, {"kind": "suffix", "n": 2}], "ws": 0}
    if k == "other-unit":
        return {"kind": k, "unit": rng.choice(["items", "pages"]), "a": 0, "b": 1}
    return {"kind": "malformed", "text": rng.choice(["bytes=", "bytes=a-b", "bytes=5", "bytes=-", "bytes=1-2-3", "bytes", "=1-2", "bytes=1-x", "bytes=--1", "bytes=+1-2", "bytes=1_0-20"])}


class Conditional(Scenario):
    pid = "C11"
    name = "c11_revalidation"
    cases = {"quick": 80000, "thorough": 1500000}
    chunk = 250
    real = "werkzeug Response.make_conditional/_process_range_request, _RangeWrapper, FileWrapper, is_resource_modified, parse_range_header, parse_etags, ETags, Range, get_wsgi_response"
    stubs = "resource store + writer actor on a simulated clock, client actors with remembered validators, body supplier (chunking / SimFile short reads / seekability), server actor (abort + close)"
    rule = "one evaluation = one history of writes and requests; non-trivial = at least one conditional or range request after a write; distinct = the history"

    def generate(self, rng: random.Random, tier: str) -> dict:
        size = rng.choice([0, 1, 2, 5, 10, 33, 100])
        events = []
        n = rng.randrange(2, 9 if tier == "quick" else 16)
        for _ in range(n):
            if rng.random() < 0.3:
                events.append(["write", rng.choice([0, 1, 200_000, 999_999, 1_000_000, 1_500_000, 3_600_000_000]), rng.choice([size, size, size + 1, max(0, size - 1), 50])])
                continue
            if rng.random() < 0.07:
                # the server's clock is stepped back (NTP correction, VM restore): Last-Modified values now lie in its future
                events.append(["clock_back", rng.choice([1_000_000, 5_000_000, 3_600_000_000])])
                continue
            method = rng.choice(["GET", "GET", "GET", "HEAD", "POST"])
            mode = rng.choice(["cond", "cond", "range", "range", "plain"])
            ev = {"client": rng.randrange(2), "method": method, "mode": mode, "abort": rng.choice([None, None, None, 0, 1, 2]), "wait_us": rng.choice([0, 0, 500_000, 2_000_000])}
            if mode == "cond":
                ev["etag_cond"] = rng.choice(["none", "inm_mine", "inm_mine", "inm_list", "inm_star", "inm_other", "inm_weakened", "inm_garbage", "im_mine", "im_star", "im_other", "im_list"])
                ev["date_cond"] = rng.choice(["none", "none", "mine", "mine", "before", "after", "mine_rfc850", "mine_offset", "garbage"])
                if ev["etag_cond"].startswith("im_") and rng.random() < 0.5:
                    ev["date_cond"] = "none"
            elif mode == "range":
                ev["range"] = gen_range(rng, size)
                ev["if_range"] = rng.choice(["none", "none", "none", "etag_mine", "etag_other", "date_mine", "date_before", "date_after"])
                ev["ranges"] = rng.choice(["on", "on", "on", "on", "off", "no_length"])
                ev["file_pos"] = rng.choice([0, 0, 0, 1, size // 2, size, size + 5])
                if rng.random() < 0.3:
                    # validators and a Range in one request
                    ev["with_cond"] = True
                    ev["etag_cond"] = rng.choice(["none", "inm_mine", "inm_mine", "inm_list", "inm_star", "inm_other", "inm_weakened", "im_mine", "im_star", "im_other", "im_list"])
                    ev["date_cond"] = rng.choice(["none", "none", "mine", "mine", "before", "after", "mine_offset"])
            events.append(["req", ev])
        return {
            "size": size,
            "etag_kind": rng.choice(["strong", "strong", "weak", "none"]),
            "lm": rng.random() < 0.75,
            "body_kind": rng.choice(["list", "generator", "generator", "file_seekable", "file_plain"]),
            "chunks": [rng.choice([0, 0, 1, 2, 3, 7, 50]) for _ in range(8)],
            "block": rng.choice([1, 2, 3, 8, 8192]),
            "file_tape": [rng.choice([0, 0, 1, 2]) for _ in range(20)],
            "start_us": rng.choice([0, 250_000, 999_999]),
            "events": events,
        }

    # ------------------------------------------------------------------
    def make_body(self, case: dict, content: bytes):
        from werkzeug.wsgi import FileWrapper

        kind = case.get("body_kind", "list")
        sizes = [s for s in case.get("chunks", []) if isinstance(s, int) and s >= 0] or [0]
        pieces = []
        pos = 0
        i = 0
        while pos < len(content) and i < 200:
            s = sizes[i % len(sizes)]
            i += 1
            pieces.append(content[pos : pos + s])
            pos += s
            if all(x == 0 for x in sizes):
                break
        pieces.append(content[pos:])
        if kind == "generator":
            return (p for p in pieces), False, None
        if kind in ("file_seekable", "file_plain"):
            f = SimFile(content, Tape(case.get("file_tape")), seekable=kind == "file_seekable")
            return FileWrapper(f, max(1, int(case.get("block", 8192) or 1))), True, f
        return list(pieces), False, None

    # every module on the request path that could read the wall clock reads the simulated one
    CLOCKED = ("werkzeug.http", "werkzeug.sansio.http", "werkzeug.sansio.response", "werkzeug.utils")

    def execute(self, case: dict) -> Outcome:
        clk = [EPOCH]
        with clock.patched(lambda: clk[0], self.CLOCKED) as fake:
            out = self._execute(case, clk)
            if fake.reads:
                out.fault("simulated_clock_read", fake.reads)
        return out

    def _execute(self, case: dict, clk: list) -> Outcome:
        from werkzeug import http
        from werkzeug.exceptions import RequestedRangeNotSatisfiable
        from werkzeug.wrappers import Response

        out = Outcome()
        tr = Trace()
        pre = f"{self.pid}/{self.name}"
        now = clk[0] = EPOCH + dt.timedelta(microseconds=int(case.get("start_us", 0) or 0))
        version = 1
        size = max(0, min(400, int(case.get("size", 10) or 0)))
        content = content_for(version, size)
        lm = now
        etag_kind = case.get("etag_kind", "strong")
        has_lm = bool(case.get("lm", True))
        memory: dict[int, dict] = {0: {}, 1: {}}
        nreq = 0
        conditional_after_write = False
        wrote = False

        def current_etag():
            if etag_kind == "none":
                return None
            return (f"v{version}", etag_kind == "weak")

        def quote(t):
            return ('W/' if t[1] else '') + f'"{t[0]}"'

        for ev in case.get("events", []):
            if out.violations:
                break
            if not isinstance(ev, list) or len(ev) < 2:
                continue
            if ev[0] == "write":
                gap = ev[1] if isinstance(ev[1], int) and ev[1] >= 0 else 0
                now = clk[0] = now + dt.timedelta(microseconds=gap)
                version += 1
                size = max(0, min(400, ev[2] if len(ev) > 2 and isinstance(ev[2], int) else size))
                content = content_for(version, size)
                lm = now
                wrote = True
                out.fault("write_within_same_second" if gap < 1_000_000 else "clock_advance")
                tr.add("write", version, size, lm.isoformat())
                continue
            if ev[0] == "clock_back":
                back = ev[1] if isinstance(ev[1], int) and 0 <= ev[1] <= 10**11 else 0
                now = clk[0] = now - dt.timedelta(microseconds=back)
                out.fault("clock_jump_backwards")
                tr.add("clock_back", back)
                continue
            spec = ev[1] if isinstance(ev[1], dict) else {}
            now = clk[0] = now + dt.timedelta(microseconds=int(spec.get("wait_us", 0) or 0))
            method = spec.get("method", "GET") if spec.get("method") in ("GET", "HEAD", "POST") else "GET"
            mem = memory[spec.get("client", 0) % 2]
            environ = {"REQUEST_METHOD": method, "SERVER_NAME": "localhost", "SERVER_PORT": "80", "wsgi.url_scheme": "http", "PATH_INFO": "/r", "SCRIPT_NAME": "", "QUERY_STRING": ""}
            cur = current_etag()
            inm = im = ims = None
            mode = spec.get("mode", "plain")
            exp_status: set = {200}
            exp_range = None
            with_cond = mode == "range" and bool(spec.get("with_cond"))
            if mode == "cond" or with_cond:
                ec = spec.get("etag_cond", "none")
                mine = mem.get("etag")  # (tag, weak) the client saw earlier
                other = ("v0", False)
                tags, star, raw = None, False, None
                if ec in ("inm_mine", "im_mine") and mine:
                    tags = [mine]
                elif ec in ("inm_list", "im_list"):
                    tags = [other, ("zzz", True)] + ([mine] if mine else [])
                elif ec in ("inm_star", "im_star"):
                    tags, star = [], True
                elif ec in ("inm_other", "im_other"):
                    tags = [other]
                elif ec == "inm_weakened" and mine:
                    tags = [(mine[0], True)]
                elif ec == "inm_garbage":
                    raw = 'W/"unterminated, ,,'
                if tags is not None:
                    raw = "*" if star else ", ".join(quote(t) for t in tags)
                if raw is not None and ec != "inm_garbage":
                    if ec.startswith("im_"):
                        if cur is not None:
                            environ["HTTP_IF_MATCH"] = raw
                            im = (tags, star)
                    else:
                        environ["HTTP_IF_NONE_MATCH"] = raw
                        inm = (tags, star)
                elif raw is not None:
                    environ["HTTP_IF_NONE_MATCH"] = raw
                dc = spec.get("date_cond", "none")
                seen_lm = mem.get("lm")
                if dc != "none":
                    base = seen_lm or ref.trunc(lm)
                    if dc == "before":
                        d = base - dt.timedelta(seconds=1)
                    elif dc == "after":
                        d = base + dt.timedelta(seconds=1)
                    else:
                        d = base
                    if dc == "garbage":
                        environ["HTTP_IF_MODIFIED_SINCE"] = "not a date"
                    else:
                        environ["HTTP_IF_MODIFIED_SINCE"] = http_date(d, {"mine_rfc850": 1, "mine_offset": 2}.get(dc, 0))
                        ims = d
                if ec == "inm_garbage":
                    # unparsable If-None-Match: either "no usable tag" or a lenient partial parse is acceptable
                    exp_status = {200, 304} if cur is not None else ref.expected_conditional(method, cur, lm if has_lm else None, None, None, ims)
                    if method not in ("GET", "HEAD"):
                        exp_status = {200}
                else:
                    exp_status = ref.expected_conditional(method, cur, lm if has_lm else None, inm, im, ims)
                conditional_after_write = conditional_after_write or wrote
            if mode == "range":
                rs = spec.get("range") if isinstance(spec.get("range"), dict) else {"kind": "malformed", "text": "bytes="}
                try:
                    environ["HTTP_RANGE"] = ref.render_range(rs)
                    outcomes = ref.expected_range(rs, len(content))
                except (KeyError, ValueError, TypeError):
                    environ["HTTP_RANGE"] = "bytes=0-0"
                    rs = {"kind": "first-last", "a": 0, "b": 0, "ws": 0}
                    outcomes = ref.expected_range(rs, len(content))
                if rs.get("ws"):
                    outcomes = set(outcomes) | {"416"}  # whitespace inside the header: grey area, 416 is acceptable too
                ir = spec.get("if_range", "none")
                applies = {True}
                if ir == "etag_mine" and mem.get("etag") and cur is not None:
                    environ["HTTP_IF_RANGE"] = quote(mem["etag"])
                    if mem["etag"][0] != cur[0]:
                        applies = {False}
                    elif mem["etag"][1] or cur[1]:
                        applies = {True, False}  # weak validators in If-Range: grey area
                elif ir == "etag_other" and cur is not None:
                    environ["HTTP_IF_RANGE"] = '"v0"'
                    applies = {False}
                elif ir.startswith("date_") and has_lm:
                    base = mem.get("lm") or ref.trunc(lm)
                    d = base + dt.timedelta(seconds={"date_before": -1, "date_after": 1}.get(ir, 0))
                    environ["HTTP_IF_RANGE"] = http_date(d)
                    applies = {ref.trunc(lm) <= d}
                if method == "POST" or spec.get("ranges", "on") in ("off", "no_length"):
                    exp_range = {"200"}  # not a GET/HEAD, ranges not enabled or the length unknown: the Range header is ignored
                else:
                    exp_range = set()
                    if True in applies:
                        exp_range |= set(outcomes)
                    if False in applies:
                        exp_range.add("200")
                    if method == "HEAD":
                        exp_range = {"200"}  # Range is defined for GET only: every other method gets the complete answer
                if with_cond:
                    # RFC 9110 13.2.2: the preconditions come first; Range / If-Range are looked at only if the answer is still 200
                    if 200 not in exp_status:
                        exp_range = {str(s_) for s_ in exp_status}
                    else:
                        exp_range |= {str(s_) for s_ in exp_status if s_ != 200}
                conditional_after_write = conditional_after_write or wrote
            # ---- the application -------------------------------------------------
            body, passthrough, simfile = self.make_body(case, content)
            moved = 0
            if simfile is not None and case.get("body_kind") == "file_seekable" and mode == "range" and isinstance(spec.get("file_pos"), int) and spec["file_pos"] > 0:
                # the open file was used before (hashed, or served once already): a seekable body is addressed absolutely
                moved = simfile._seek(spec["file_pos"])
                out.probe("seekable_file_not_at_start")
            resp = Response(body, direct_passthrough=passthrough, mimetype="application/octet-stream")
            if cur is not None:
                resp.set_etag(cur[0], weak=cur[1])
            if has_lm:
                resp.last_modified = lm
            resp.headers["Date"] = http_date(now)
            status = None
            try:
                rmode = spec.get("ranges", "on") if mode == "range" else "on"
                if rmode == "off":
                    resp.make_conditional(environ, accept_ranges=False, complete_length=len(content))
                elif rmode == "no_length":
                    resp.make_conditional(environ, accept_ranges=True)
                else:
                    resp.make_conditional(environ, accept_ranges=True, complete_length=len(content))
            except RequestedRangeNotSatisfiable:
                status = 416
            except Exception as e:  # noqa: BLE001
                out.violate(f"{pre}/make_conditional-raises/{type(e).__name__}", f"{type(e).__name__}: {e} for {self.req_repr(environ)}")
                break
            produced = b""
            headers = {}
            finished = True
            if status is None:
                try:
                    app_iter, st, hl = resp.get_wsgi_response(environ)
                    status = int(st[:3])
                    headers = {k.lower(): v for k, v in hl}
                    buf = bytearray()
                    abort = spec.get("abort")
                    k = 0
                    for chunk in app_iter:
                        if isinstance(abort, int) and k >= abort:
                            finished = False
                            out.fault("server_aborts_iteration")
                            break
                        buf += chunk
                        k += 1
                    if hasattr(app_iter, "close"):
                        app_iter.close()
                    produced = bytes(buf)
                except Exception as e:  # noqa: BLE001
                    out.violate(f"{pre}/serving-raises/{type(e).__name__}/body={case.get('body_kind')}", f"{type(e).__name__}: {e} for {self.req_repr(environ)}")
                    break
            nreq += 1
            tr.add("req", method, self.req_repr(environ), "->", status, headers.get("content-range"), headers.get("content-length"), len(produced), "finished" if finished else "aborted")
            # ---- the oracle --------------------------------------------------------
            where = f"{self.req_repr(environ)} against etag={cur} last_modified={lm.isoformat() if has_lm else None} length={len(content)}"
            if mode == "range":
                ok = False
                for o in exp_range:
                    if o == "200" and status == 200:
                        ok = True
                        if not moved:  # (a whole-body answer from a file that is not at its start is the application's own doing)
                            self.check_body(out, pre, case, "200", produced, content, finished, method, headers, None, where)
                    elif o == "416" and status == 416:
                        ok = True
                    elif o in ("304", "412") and status == int(o):
                        ok = True
                        out.probe("precondition_decided_before_range")
                    elif isinstance(o, tuple) and status == 206:
                        a, b = o[1], o[2]
                        ok = True
                        cr = headers.get("content-range")
                        if cr != f"bytes {a}-{b}/{len(content)}":
                            out.violate(f"{pre}/content-range-wrong/range={rs.get('kind')}", f"Content-Range {cr!r}, expected 'bytes {a}-{b}/{len(content)}' for {where}")
                        elif headers.get("content-length") != str(b - a + 1):
                            out.violate(f"{pre}/content-length-wrong-on-206/range={rs.get('kind')}", f"Content-Length {headers.get('content-length')!r}, expected {b - a + 1} for {where}")
                        else:
                            self.check_body(out, pre, case, "206", produced, content[a : b + 1], finished, method, headers, (a, b), where)
                if not ok and not out.violations:
                    kind = rs.get("kind")
                    detail = kind + (f"/n={'0' if rs.get('n') == 0 else ('gt-length' if rs.get('n', 0) > len(content) else 'le-length')}" if kind == "suffix" else "")
                    out.violate(f"{pre}/range-outcome-wrong/range={detail}/if_range={spec.get('if_range', 'none') if 'HTTP_IF_RANGE' in environ else 'none'}/cond={(spec.get('etag_cond', 'none').split('_')[0] + ('+date' if spec.get('date_cond', 'none') != 'none' else '')) if with_cond else 'none'}/method={method}/got={status}", f"status {status} (Content-Range {headers.get('content-range')!r}), admissible {sorted(map(str, exp_range))} for {where}")
            else:
                if status not in exp_status:
                    which = spec.get("etag_cond", "none") if mode == "cond" else "plain"
                    out.violate(f"{pre}/status-wrong/cond={which}/date={spec.get('date_cond', 'none') if mode == 'cond' else 'none'}/etag={etag_kind}/got={status}", f"status {status}, admissible {sorted(exp_status)} for {where}")
                elif status == 200:
                    self.check_body(out, pre, case, "200", produced, content, finished, method, headers, None, where)
                if status == 304:
                    out.probe("not_modified_304")
                if status == 412:
                    out.probe("precondition_failed_412")
            # the sans-io function with a datetime that still has its sub-second part
            if mode == "cond" and not out.violations and spec.get("etag_cond") != "inm_garbage" and im is None:
                want_unmodified = 304 in ref.expected_conditional("GET", cur, lm if has_lm else None, inm, None, ims)
                env2 = dict(environ, REQUEST_METHOD="GET")
                got_mod = http.is_resource_modified(env2, etag=quote(cur) if cur else None, last_modified=lm if has_lm else None)
                if got_mod == want_unmodified:
                    out.violate(f"{pre}/is_resource_modified-wrong/etag={etag_kind}", f"is_resource_modified -> {got_mod} for {where}")
            # ---- the client remembers what a 200 told it -------------------------------
            if status == 200 and method == "GET":
                mem["etag"] = cur
                mem["lm"] = ref.trunc(lm) if has_lm else None
                mem["version"] = version
        out.digest = tr.digest()
        out.trace = tr.events
        out.steps = nreq
        out.sim_time = (now - EPOCH).total_seconds()
        out.nontrivial = conditional_after_write
        out.key = repr((case.get("size"), case.get("etag_kind"), case.get("lm"), case.get("body_kind"), case.get("chunks"), case.get("block"), case.get("events")))
        out.config = case.get("body_kind", "list")
        return out

    @staticmethod
    def req_repr(environ: dict) -> str:
        return environ["REQUEST_METHOD"] + " " + " ".join(f"{k[5:]}={v!r}" for k, v in sorted(environ.items()) if k.startswith("HTTP_"))

    def check_body(self, out, pre, case, what, produced, expect, finished, method, headers, rng_, where) -> None:
        if out.violations:
            return
        bk = case.get("body_kind")
        if method == "HEAD":
            if produced:
                out.violate(f"{pre}/body-on-HEAD", f"{len(produced)} bytes for {where}")
            return
        if finished:
            if produced != expect:
                kind = "truncated" if expect.startswith(produced) else ("extra-bytes" if produced.startswith(expect) else "wrong-bytes")
                out.violate(f"{pre}/body-{kind}-on-{what}/body={bk}", f"{len(produced)} bytes produced, {len(expect)} expected ({'range %s-%s' % rng_ if rng_ else 'whole body'}); chunks={case.get('chunks')} block={case.get('block')} for {where}")
        elif not expect.startswith(produced):
            out.violate(f"{pre}/body-wrong-bytes-on-{what}/body={bk}", f"aborted after {len(produced)} bytes that are not a prefix of the expected body for {where}")


class SendFile(Scenario):
    """send_file on a real temporary file whose mtime comes from the simulated clock."""

    pid = "C11"
    name = "c11_send_file"
    cases = {"quick": 6000, "thorough": 100000}
    chunk = 100
    real = "werkzeug.utils.send_file (conditional=True), Response.make_conditional, _RangeWrapper, wrap_file/FileWrapper, real file I/O in a temporary directory"
    stubs = "writer actor (content + mtime from the simulated clock via os.utime), client actors with remembered validators, server actor"
    rule = "non-trivial = a revalidation or range request after a write; distinct = the history"

    def generate(self, rng: random.Random, tier: str) -> dict:
        evs = []
        for _ in range(rng.randrange(2, 8)):
            if rng.random() < 0.3:
                evs.append(["write", rng.choice([0, 300_000, 1_000_000, 5_000_000]), rng.choice([0, 1, 10, 40])])
            else:
                evs.append(["req", {"cond": rng.choice(["none", "etag", "etag", "date", "date_before", "both"]), "range": gen_range(rng, 10) if rng.random() < 0.4 else None, "method": rng.choice(["GET", "GET", "HEAD"])}])
        return {"size": rng.choice([1, 10, 40]), "events": evs, "start_us": rng.choice([0, 400_000])}

    def execute(self, case: dict) -> Outcome:
        from werkzeug.exceptions import RequestedRangeNotSatisfiable
        from werkzeug.utils import send_file

        out = Outcome()
        tr = Trace()
        pre = f"{self.pid}/{self.name}"
        tmp = tempfile.mkdtemp(prefix="verif-c11-")
        path = os.path.join(tmp, "resource.bin")
        now = EPOCH + dt.timedelta(microseconds=int(case.get("start_us", 0) or 0))
        version = 1
        ident = [None]

        def write(size):
            data = content_for(version, size)
            with open(path, "wb") as f:
                f.write(data)
            ns = int(now.timestamp()) * 1_000_000_000 + now.microsecond * 1000
            os.utime(path, ns=(ns, ns))
            ident[0] = (ns, size)  # a validator derived from mtime and size cannot tell two writes with equal mtime and size apart
            return data

        try:
            content = write(max(0, min(100, int(case.get("size", 10) or 0))))
            lm = now
            mem: dict = {}
            nreq = 0
            after_write = False
            wrote = False
            for ev in case.get("events", []):
                if out.violations or not isinstance(ev, list) or len(ev) < 2:
                    continue
                if ev[0] == "write":
                    now += dt.timedelta(microseconds=ev[1] if isinstance(ev[1], int) and ev[1] >= 0 else 0)
                    version += 1
                    content = write(max(0, min(100, ev[2] if len(ev) > 2 and isinstance(ev[2], int) else 10)))
                    lm = now
                    wrote = True
                    tr.add("write", version, len(content), lm.isoformat())
                    continue
                spec = ev[1] if isinstance(ev[1], dict) else {}
                method = spec.get("method", "GET") if spec.get("method") in ("GET", "HEAD") else "GET"
                environ = {"REQUEST_METHOD": method, "SERVER_NAME": "localhost", "SERVER_PORT": "80", "wsgi.url_scheme": "http", "PATH_INFO": "/r", "SCRIPT_NAME": "", "QUERY_STRING": ""}
                cond = spec.get("cond", "none")
                holds_current = mem.get("ident") == ident[0]
                sent_etag = sent_date = None
                rs = spec.get("range") if isinstance(spec.get("range"), dict) else None
                if rs is None:
                    if cond in ("etag", "both") and mem.get("etag"):
                        environ["HTTP_IF_NONE_MATCH"] = mem["etag"]
                        sent_etag = mem["etag"]
                    if cond in ("date", "both", "date_before") and mem.get("lm"):
                        d = mem["lm"] - dt.timedelta(seconds=1 if cond == "date_before" else 0)
                        environ["HTTP_IF_MODIFIED_SINCE"] = http_date(d)
                        sent_date = d
                else:
                    try:
                        environ["HTTP_RANGE"] = ref.render_range(rs)
                        outcomes = set(ref.expected_range(rs, len(content)))
                    except (KeyError, ValueError, TypeError):
                        rs = None
                    else:
                        if rs.get("ws"):
                            outcomes.add("416")
                        if method == "HEAD":
                            outcomes.add("200")
                status = None
                produced = b""
                headers: dict = {}
                try:
                    resp = send_file(path, environ, conditional=True, max_age=0, mimetype="application/octet-stream")
                    app_iter, st, hl = resp.get_wsgi_response(environ)
                    status = int(st[:3])
                    headers = {k.lower(): v for k, v in hl}
                    produced = b"".join(app_iter)
                    if hasattr(app_iter, "close"):
                        app_iter.close()
                except RequestedRangeNotSatisfiable:
                    status = 416
                except Exception as e:  # noqa: BLE001
                    out.violate(f"{pre}/send_file-raises/{type(e).__name__}", f"{type(e).__name__}: {e}")
                    break
                nreq += 1
                after_write = after_write or (wrote and (rs is not None or sent_etag or sent_date))
                # the ETag send_file generates contains a checksum of the (random) temporary path: keep it out of trace and messages
                shown = {k: ("<etag>" if k == "HTTP_IF_NONE_MATCH" else v) for k, v in environ.items()}
                tr.add("req", method, sorted((k, v) for k, v in shown.items() if k.startswith("HTTP_")), "->", status, headers.get("content-range"), len(produced))
                where = f"{Conditional.req_repr(shown)} (client holds version {mem.get('version')}, current {version}, length {len(content)})"
                if rs is not None:
                    ok = False
                    for o in outcomes:
                        if o == "200" and status == 200:
                            ok = method == "HEAD" or produced == content
                        elif o == "416" and status == 416:
                            ok = True
                        elif isinstance(o, tuple) and status == 206:
                            a, b = o[1], o[2]
                            ok = headers.get("content-range") == f"bytes {a}-{b}/{len(content)}" and headers.get("content-length") == str(b - a + 1) and (method == "HEAD" or produced == content[a : b + 1])
                    if not ok:
                        out.violate(f"{pre}/range-response-wrong/range={rs.get('kind')}/got={status}", f"status {status}, Content-Range {headers.get('content-range')!r}, {len(produced)} bytes; admissible {sorted(map(str, outcomes))} for {where}")
                elif status == 304:
                    # staleness: never 304 for a version the client does not hold (by ETag), or when Last-Modified is later than the date sent
                    if sent_etag is not None and not holds_current:
                        out.violate(f"{pre}/stale-304/by=etag", f"304 for {where}")
                    elif sent_etag is None and sent_date is not None and ref.trunc(lm) > sent_date:
                        out.violate(f"{pre}/stale-304/by=date", f"304 although Last-Modified {lm.isoformat()} is later than {sent_date.isoformat()} for {where}")
                    out.probe("not_modified_304")
                elif status == 200:
                    if method == "GET" and produced != content:
                        out.violate(f"{pre}/body-differs", f"{len(produced)} bytes vs {len(content)} for {where}")
                    if sent_etag is not None and holds_current:
                        out.violate(f"{pre}/missed-304/by=etag", f"200 although the client's ETag is current for {where}")
                    elif sent_etag is None and sent_date is not None and ref.trunc(lm) <= sent_date:
                        out.violate(f"{pre}/missed-304/by=date", f"200 although Last-Modified {lm.isoformat()} is not later than {sent_date.isoformat()} for {where}")
                    if method == "GET":
                        mem.update(etag=headers.get("etag"), lm=ref.trunc(lm), version=version, ident=ident[0])
                else:
                    out.violate(f"{pre}/unexpected-status/{status}", f"for {where}")
            out.steps = nreq
            out.nontrivial = after_write
        finally:
            shutil.rmtree(tmp, ignore_errors=True)
        out.digest = tr.digest()
        out.trace = tr.events
        out.sim_time = (now - EPOCH).total_seconds()
        out.key = repr((case.get("size"), case.get("events"), case.get("start_us")))
        out.config = "send_file"
        out.fault("clock_advance", 1)
        return out


SCENARIOS = [Conditional(), SendFile()]
