"""C16 - live views of response headers never drift from the header text.

One run = one history on one real (sans-io) Response: mutations through the
live views (HeaderSet-backed vary / allow / content_language, cache_control,
www_authenticate, content_security_policy(+report_only), content_range,
mimetype_params), whole-property assignments, typed scalar properties, and
direct header edits, interleaved.  The harness holds one live view per header
and re-fetches it after a direct edit or a whole-property assignment.  After
every step: header text == the mutated view's serialisation (absent when the
view is empty), the re-read property equals the live view - and, for the set
views, the reference model; assign -> read of a typed property gives the
documented normal form.  ``retry_after = n`` reads back as *simulated now* + n
through the clock seam (werkzeug.sansio.response.datetime).
"""
from __future__ import annotations

import datetime as dt
import random

from dsim.core import Outcome
from dsim.core import Scenario
from dsim.core import Trace
from refmodels.containers import KEYERROR
from refmodels.containers import HeaderSetModel

UTC = dt.timezone.utc
SIM_NOW = dt.datetime(2024, 5, 17, 10, 30, 15, 250000, tzinfo=UTC)
HS_PROPS = {"vary": "Vary", "allow": "Allow", "content_language": "Content-Language"}
HS_ITEMS = ["Cookie", "cookie", "COOKIE", "Accept", "accept-Encoding", "GET", "get", "en", "x y", "q\"uote"]
CC_BOOL = ["no_store", "no_transform", "public", "must_revalidate", "proxy_revalidate", "immutable", "must_understand"]
CC_INT = ["max_age", "s_maxage", "stale_if_error", "stale_while_revalidate"]
CC_STR = ["no_cache", "private"]
CC_VALUES = [True, False, None, 0, 60, "120", "field", "a b"]
CSP_ATTRS = ["default_src", "script_src", "img_src", "report_uri"]
CSP_VALUES = ["'self'", "'none'", "https://example.com 'self'", None, "*", "'self' data:", "https:", ""]
WA_VALUES = ["xyz", "abc.def", "digest", "bearer", "realm one", "a,b"]
SCALARS = ["age", "date", "expires", "last_modified", "retry_after", "content_length", "location", "etag", "content_type", "mimetype", "content_encoding",
           "access_control_allow_origin", "access_control_max_age", "access_control_allow_headers", "access_control_allow_methods", "access_control_expose_headers",
           "access_control_allow_credentials", "cross_origin_opener_policy", "cross_origin_embedder_policy", "accept_ranges", "content_md5", "content_location"]


def make_fake_datetime(now: dt.datetime):
    class Meta(type(dt.datetime)):
        # real datetime objects must still pass ``isinstance(value, datetime)`` inside the module under test
        def __instancecheck__(cls, obj):
            return isinstance(obj, dt.datetime)

    class FakeDateTime(dt.datetime, metaclass=Meta):
        @classmethod
        def now(cls, tz=None):
            return now.astimezone(tz) if tz is not None else now.replace(tzinfo=None)

    return FakeDateTime


def gen_op(rng: random.Random) -> list:
    k = rng.choice(["hs", "hs", "hs", "cc", "cc", "wa", "wa", "csp", "cr", "mp", "sc", "sc", "hdr"])
    if k == "hs":
        return ["hs", rng.choice(list(HS_PROPS)), rng.choice(["add", "add", "remove", "discard", "update", "clear", "setitem", "delitem", "assign_list", "assign_str", "assign_none"]), rng.choice(HS_ITEMS), rng.choice(HS_ITEMS), rng.randrange(-1, 3)]
    if k == "cc":
        return ["cc", rng.choice(["set_attr", "set_attr", "set_attr", "del_attr", "setitem", "delitem", "pop", "clear", "update", "setdefault"]), rng.choice(CC_BOOL + CC_INT + CC_STR), rng.randrange(len(CC_VALUES)), rng.choice(["x-ext", "max-age", "no-cache"])]
    if k == "wa":
        return ["wa", rng.choice(["set_type", "set_token", "set_token_none", "param_item", "param_attr", "param_del", "params_assign", "params_inner", "assign", "assign_list", "assign_none", "delete"]), rng.choice(["realm", "nonce", "qop", "error"]), rng.choice(WA_VALUES), rng.choice(["basic", "digest", "bearer", "Negotiate"])]
    if k == "csp":
        return ["csp", rng.choice(["content_security_policy", "content_security_policy_report_only"]), rng.choice(["set_attr", "set_attr", "del_attr", "setitem", "delitem", "clear", "assign_str", "assign_dict", "assign_none"]), rng.choice(CSP_ATTRS), rng.randrange(len(CSP_VALUES))]
    if k == "cr":
        start = rng.choice([None, 0, 5])
        stop = None if start is None else start + rng.choice([1, 10])
        length = rng.choice([None, 100, 15]) if start is not None else rng.choice([None, 100, 0, 0])
        return ["cr", rng.choice(["set", "set", "unset", "attr_length", "attr_units", "assign_obj", "assign_str", "assign_none"]), start, stop, length, rng.choice(["bytes", "items"])]
    if k == "mp":
        return ["mp", rng.choice(["setitem", "setitem", "delitem", "pop", "clear", "update", "setdefault"]), rng.choice(["charset", "boundary", "x"]), rng.choice(["utf-8", "a b", "x;y", "latin-1"])]
    if k == "sc":
        return ["sc", rng.choice(SCALARS), rng.choice(["set", "set", "set", "del"]), rng.randrange(6)]
    # last element: the application keeps using the view it already holds (a stale view) instead of re-reading the property
    return ["hdr", rng.choice(["Vary", "Allow", "Cache-Control", "WWW-Authenticate", "Content-Security-Policy", "Content-Range", "Content-Type", "Content-Language"]), rng.choice(["set", "set", "del"]), rng.randrange(4), rng.random() < 0.4]


def gen_ops(rng: random.Random, n: int) -> list:
    ops: list = []
    for _ in range(n):
        op = gen_op(rng)
        ops.append(op)
        if op[0] == "hdr" and op[4] and rng.random() < 0.6:
            # write through the held view right after the foreign edit - often the very assignment made before
            kind = {"Cache-Control": "cc", "Content-Security-Policy": "csp", "Vary": "hs", "Allow": "hs", "Content-Language": "hs"}.get(op[1])
            earlier = [o for o in ops if o[0] == kind and (kind != "hs" or HS_PROPS.get(o[1]) == op[1])]
            if earlier:
                ops.append(list(rng.choice(earlier)))
    return ops


RAW_TEXT = {
    "Vary": ["Cookie, Accept", "cookie", "*", "a,  b ,c"],
    "Allow": ["GET, POST", "get", "HEAD", ""],
    "Content-Language": ["en, de", "EN", "fr", "en-US"],
    "Cache-Control": ["max-age=60, public", "no-cache", "private=\"a, b\", no-store", "max-age=abc"],
    "WWW-Authenticate": ['Basic realm="x"', 'Digest realm="r", nonce="n", qop="auth"', "Bearer abc", "Negotiate"],
    "Content-Security-Policy": ["default-src 'self'; img-src *", "script-src 'none'", "default-src 'self'", "sandbox"],
    "Content-Range": ["bytes 0-9/100", "bytes */50", "items 1-2/*", "garbage"],
    "Content-Type": ["text/html; charset=utf-8", "application/json", "multipart/form-data; boundary=\"a b\"", "text/plain; charset=latin-1; x=y"],
}


class ResponseViews(Scenario):
    pid = "C16"
    name = "c16_views"
    cases = {"quick": 150000, "thorough": 3000000}
    chunk = 500
    real = "werkzeug.sansio.response.Response properties, HeaderSet, ResponseCacheControl, WWWAuthenticate, ContentSecurityPolicy, ContentRange, CallbackDict, header_property, http dump/parse helpers"
    stubs = "the operation history; simulated clock for retry_after (werkzeug.sansio.response.datetime rebound); reference model HeaderSetModel"
    rule = "non-trivial = at least two view mutations; distinct = the operation history"

    def generate(self, rng: random.Random, tier: str) -> dict:
        return {"ops": gen_ops(rng, rng.randrange(1, 14 if tier == "quick" else 40)), "wrapper": rng.random() < 0.3}

    def execute(self, case: dict) -> Outcome:
        import werkzeug.sansio.response as sr

        real_dt = sr.datetime
        sr.datetime = make_fake_datetime(SIM_NOW)
        try:
            return self._execute(case, sr)
        finally:
            sr.datetime = real_dt

    def _execute(self, case: dict, sr) -> Outcome:
        from werkzeug import datastructures as ds
        from werkzeug import http

        out = Outcome()
        tr = Trace()
        pre = f"{self.pid}/{self.name}"
        if case.get("wrapper"):
            from werkzeug.wrappers import Response as R

            resp = R("body")
        else:
            resp = sr.Response()
        resp.headers["Content-Type"] = "text/html; charset=utf-8"
        views: dict = {}          # property name -> live view
        normalised: dict = {}     # property name -> header text was last written by the view itself
        hs_models: dict = {}      # HeaderSet property -> HeaderSetModel
        stale: dict = {}          # property name -> the header was edited directly and the held view has not written since
        nmut = 0

        def vio(cls, msg):
            if not out.violations:
                out.violate(f"{pre}/{cls}", msg)

        def fetch(prop):
            views[prop] = getattr(resp, prop)
            normalised[prop] = False
            stale[prop] = False
            if prop in HS_PROPS:
                raw = resp.headers.get(HS_PROPS[prop])
                hs_models[prop] = HeaderSetModel(http.parse_list_header(raw) if raw else [])
            return views[prop]

        def view(prop):
            return views[prop] if prop in views else fetch(prop)

        HNAME = {**HS_PROPS, "cache_control": "Cache-Control", "www_authenticate": "WWW-Authenticate", "content_security_policy": "Content-Security-Policy",
                 "content_security_policy_report_only": "Content-Security-Policy-Report-Only", "content_range": "Content-Range", "mimetype_params": "Content-Type"}
        PROP_OF = {v: k for k, v in HNAME.items()}

        def cr_tuple(c):
            return (c.units, c.start, c.stop, c.length)

        def check(after: str) -> None:
            for prop, v in list(views.items()):
                if out.violations:
                    return
                if stale.get(prop):
                    continue  # nothing is promised about a held view between a foreign edit and its next write
                text = resp.headers.get(HNAME[prop])
                fresh = getattr(resp, prop)
                if prop in HS_PROPS:
                    m = hs_models[prop]
                    if list(v) != m.l or len(v) != len(m.l):
                        vio(f"{prop}/live-view-differs-from-model/after={after}", f"view {list(v)!r} (len {len(v)}), model {m.l!r}")
                    elif list(fresh) != m.l:
                        vio(f"{prop}/reread-view-differs-from-model/after={after}", f"re-read {list(fresh)!r}, model {m.l!r}, header {text!r}")
                    elif not m.l and text is not None and normalised[prop]:
                        vio(f"{prop}/header-left-behind-by-empty-view/after={after}", f"header {text!r}")
                    elif m.l and normalised[prop] and text != v.to_header():
                        vio(f"{prop}/header-text-differs-from-view/after={after}", f"header {text!r}, view serialises to {v.to_header()!r}")
                elif prop in ("cache_control", "content_security_policy", "content_security_policy_report_only"):
                    if dict(fresh) != dict(v):
                        if prop != "cache_control" and {k_: x for k_, x in dict(v).items() if x != ""} == dict(fresh):
                            # recorded finding V4: a directive without a value ("sandbox") is written but not read back
                            vio("csp/valueless-directive-dropped-on-reread", f"{prop}: re-read {dict(fresh)!r}, live {dict(v)!r}, header {text!r}")
                        else:
                            vio(f"{prop}/reread-view-differs/after={after}", f"re-read {dict(fresh)!r}, live {dict(v)!r}, header {text!r}")
                    elif not v and text is not None and normalised[prop]:
                        vio(f"{prop}/header-left-behind-by-empty-view/after={after}", f"header {text!r}")
                    elif v and normalised[prop] and text != v.to_header():
                        vio(f"{prop}/header-text-differs-from-view/after={after}", f"header {text!r}, view serialises to {v.to_header()!r}")
                elif prop == "www_authenticate":
                    if text is None and normalised[prop] and (v.token is not None or v.parameters):
                        vio(f"{prop}/header-missing-for-non-empty-view/after={after}", f"the view holds {v!r} but the response has no WWW-Authenticate header")
                    if text is not None:
                        # a challenge without token and parameters serialises to "<Scheme> ", which reads back with token ""
                        same = (fresh.type, fresh.token or None, dict(fresh.parameters)) == (v.type, v.token or None, dict(v.parameters))
                        if not same:
                            vio(f"{prop}/reread-view-differs/after={after}", f"re-read {fresh!r}, live {v!r}, header {text!r}")
                        elif normalised[prop] and text != v.to_header():
                            vio(f"{prop}/header-text-differs-from-view/after={after}", f"header {text!r}, view serialises to {v.to_header()!r}")
                elif prop == "content_range":
                    if cr_tuple(fresh) != cr_tuple(v):
                        vio(f"{prop}/reread-view-differs/after={after}", f"re-read {cr_tuple(fresh)}, live {cr_tuple(v)}, header {text!r}")
                    elif not v and text is not None and normalised[prop]:
                        vio(f"{prop}/header-left-behind-by-empty-view/after={after}", f"header {text!r}")
                    elif v and normalised[prop] and text != v.to_header():
                        vio(f"{prop}/header-text-differs-from-view/after={after}", f"header {text!r}, view serialises to {v.to_header()!r}")
                elif prop == "mimetype_params":
                    if dict(fresh) != dict(v):
                        vio(f"{prop}/reread-view-differs/after={after}", f"re-read {dict(fresh)!r}, live {dict(v)!r}, header {text!r}")

        for op in case.get("ops", []):
            if out.violations:
                break
            if not isinstance(op, list) or not op:
                continue
            kind = op[0]
            try:
                if kind == "hs" and len(op) >= 6 and op[1] in HS_PROPS:
                    _, prop, what, a, b, idx = op[:6]
                    a, b = str(a), str(b)
                    idx = idx if isinstance(idx, int) else 0
                    if stale.get(prop) and what != "add":
                        fetch(prop)
                    v = view(prop)
                    m = hs_models[prop]
                    n = len(m.l)
                    changed = False
                    if what == "add":
                        v.add(a)
                        changed = m.add(a)
                    elif what == "remove":
                        try:
                            v.remove(a)
                            r = None
                        except KeyError:
                            r = KEYERROR
                        mr = m.remove(a)
                        changed = mr is True
                        if (r is KEYERROR) != (mr is KEYERROR):
                            vio(f"{prop}/remove-returns-wrong/after=remove", f"remove({a!r}) {'raised' if r else 'did not raise'} KeyError, model {m.l!r}")
                    elif what == "discard":
                        v.discard(a)
                        changed = m.discard(a)
                    elif what == "update":
                        v.update([a, b])
                        changed = m.update([a, b])
                    elif what == "clear":
                        v.clear()
                        m.clear()
                        changed = True
                    elif what == "setitem":
                        if not (-n <= idx < n):
                            continue
                        other = m.find(a)
                        v[idx] = a
                        if other >= 0 and other != idx % n:
                            # a name that is already another member: the view must stay a set (where the name ends up is
                            # not specified); the model follows the view, header coherence is checked as after any step
                            got = list(v)
                            lows = [x.lower() for x in got]
                            rest = [x for j, x in enumerate(m.l) if j not in (other, idx % n)]
                            if len(set(lows)) != len(lows) or len(v) != len(got) or a not in got or sorted(x for x in got if x != a) != sorted(rest):
                                vio(f"{prop}/not-a-set-after-assigning-an-existing-member", f"{m.l!r} with [{idx}] = {a!r} became {got!r} (len {len(v)})")
                            m.l[:] = got
                        else:
                            m.l[idx] = a
                        changed = True
                    elif what == "delitem":
                        if not (-n <= idx < n):
                            continue
                        del v[idx]
                        del m.l[idx]
                        changed = True
                    elif what in ("assign_list", "assign_str", "assign_none"):
                        if what == "assign_list":
                            setattr(resp, prop, [a, b])
                        elif what == "assign_str":
                            setattr(resp, prop, f"{a.replace(chr(34), '')}, {b.replace(chr(34), '')}")
                        else:
                            setattr(resp, prop, None)
                            if resp.headers.get(HS_PROPS[prop]) is not None:
                                vio(f"{prop}/assign-none-keeps-header", f"{resp.headers.get(HS_PROPS[prop])!r}")
                        fetch(prop)
                    if changed:
                        normalised[prop] = True
                        stale[prop] = False
                        out.probe("write_through_stale_view") if what == "add" and len(m.l) > 1 else None
                        nmut += 1
                elif kind == "cc" and len(op) >= 5:
                    _, what, attr, vi, key = op[:5]
                    val = CC_VALUES[vi % len(CC_VALUES)] if isinstance(vi, int) else None
                    # operations that always write the header back, whatever the view held before
                    writes = what == "setitem" or (what == "set_attr" and attr in CC_BOOL + CC_INT + CC_STR and (bool(val) if attr in CC_BOOL else (val is not None and val is not False)))
                    was_stale = bool(stale.get("cache_control"))
                    if was_stale and not writes:
                        fetch("cache_control")
                        was_stale = False
                    v = view("cache_control")
                    before = dict(v)
                    if what == "set_attr" and attr in CC_BOOL + CC_INT + CC_STR:
                        if attr in CC_INT and isinstance(val, str) and not val.isdigit():
                            val = 5
                        setattr(v, attr, val)
                        got = getattr(v, attr)
                        if attr in CC_BOOL:
                            exp = bool(val)
                        elif val is None or val is False:
                            exp = None
                        elif attr in CC_INT:
                            exp = None if val is True else int(val)
                        else:
                            exp = True if val is True else str(val)
                        if got != exp or type(got) is not type(exp):
                            vio(f"cache_control/typed-readback-wrong/attr={'bool' if attr in CC_BOOL else 'int' if attr in CC_INT else 'str'}", f"cc.{attr} = {val!r} reads back {got!r}, expected {exp!r}")
                    elif what == "del_attr" and attr in CC_BOOL + CC_INT + CC_STR:
                        delattr(v, attr)
                    elif what == "setitem":
                        v[str(key)] = None if val in (True, False, None) else str(val)
                    elif what == "delitem":
                        if str(key) in v:
                            del v[str(key)]
                    elif what == "pop":
                        if str(key) in v and vi % 2:
                            v.pop(str(key))  # the single-argument form is a different code path
                        else:
                            v.pop(str(key), None)
                    elif what == "clear":
                        v.clear()
                    elif what == "update":
                        v.update({str(key): "1", "public": None})
                    elif what == "setdefault":
                        v.setdefault(str(key), "7")
                    if dict(v) != before or what == "clear" or was_stale:
                        normalised["cache_control"] = True
                        nmut += 1
                    if was_stale:
                        stale["cache_control"] = False
                        out.probe("write_through_stale_view")
                elif kind == "wa" and len(op) >= 5:
                    _, what, key, val, typ = op[:5]
                    key, val, typ = str(key), str(val), str(typ)
                    v = view("www_authenticate")
                    wa_before = (v.type, v.token, dict(v.parameters))
                    # "only one of parameters or token should have a value for a given scheme"
                    if what in ("param_item", "param_attr", "params_assign", "params_inner") and v.token:
                        v.token = None
                    if what == "set_token" and v.parameters:
                        v.parameters = {}
                    if what == "set_type":
                        v.type = typ.lower()
                        if v.type != typ.lower():
                            vio("www_authenticate/attribute-readback-wrong/attr=type", f"view.type = {typ.lower()!r} reads back {v.type!r} (parameters {dict(v.parameters)!r})")
                    elif what in ("set_token", "set_token_none"):
                        t_ = None if what == "set_token_none" else val
                        v.token = t_
                        if v.token != t_:
                            vio("www_authenticate/attribute-readback-wrong/attr=token", f"view.token = {t_!r} reads back {v.token!r} (parameters {dict(v.parameters)!r})")
                    elif what == "param_item":
                        v[key] = val
                        if v[key] != val or v.get(key) != val:
                            vio("www_authenticate/parameter-readback-wrong", f"view[{key!r}] = {val!r} reads back {v[key]!r}")
                    elif what == "param_attr":
                        setattr(v, key, val)
                        if getattr(v, key) != val or v.parameters.get(key) != val:
                            vio("www_authenticate/parameter-readback-wrong", f"view.{key} = {val!r} reads back {getattr(v, key)!r}")
                    elif what == "param_del":
                        del v[key]
                        if key in v:
                            vio("www_authenticate/parameter-not-deleted", key)
                    elif what == "params_assign":
                        v.parameters = {key: val}
                        if dict(v.parameters) != {key: val}:
                            vio("www_authenticate/attribute-readback-wrong/attr=parameters", f"view.parameters = {{{key!r}: {val!r}}} reads back {dict(v.parameters)!r}")
                    elif what == "params_inner":
                        v.parameters[key] = val
                        # read - modify - write back through the very same object
                        held = v.parameters
                        want = dict(held)
                        v.parameters = held
                        if dict(v.parameters) != want:
                            vio("www_authenticate/attribute-readback-wrong/attr=parameters-written-back", f"parameters {want!r} assigned back to the view read {dict(v.parameters)!r}")
                    elif what == "assign":
                        if len(val) % 2:
                            resp.www_authenticate = ds.WWWAuthenticate(typ.lower(), {key: val})
                        else:
                            resp.www_authenticate = ds.WWWAuthenticate(typ.lower(), token=val.replace(" ", "").replace(",", ""))
                            if "WWW-Authenticate" not in resp.headers:
                                vio("www_authenticate/header-missing-for-non-empty-view/after=wa:assign", "a token-only challenge was assigned and no header was written")
                        fetch("www_authenticate")
                    elif what == "assign_list":
                        resp.www_authenticate = [ds.WWWAuthenticate("basic", {"realm": val}), ds.WWWAuthenticate("bearer", token="t")]
                        if resp.headers.getlist("WWW-Authenticate") != [f"Basic realm={http.quote_header_value(val)}", "Bearer t"]:
                            vio("www_authenticate/list-assignment-wrong", f"{resp.headers.getlist('WWW-Authenticate')!r}")
                        fetch("www_authenticate")
                    elif what in ("assign_none", "delete"):
                        if what == "delete":
                            del resp.www_authenticate
                        else:
                            resp.www_authenticate = None
                        if "WWW-Authenticate" in resp.headers:
                            vio("www_authenticate/delete-keeps-header", "")
                        fetch("www_authenticate")
                    if what not in ("assign", "assign_list", "assign_none", "delete") and (v.type, v.token, dict(v.parameters)) != wa_before:
                        normalised["www_authenticate"] = True
                        nmut += 1
                elif kind == "csp" and len(op) >= 5 and op[1] in ("content_security_policy", "content_security_policy_report_only"):
                    _, prop, what, attr, vi = op[:5]
                    val = CSP_VALUES[vi % len(CSP_VALUES)] if isinstance(vi, int) else None
                    writes = what == "setitem" or (what == "set_attr" and attr in CSP_ATTRS and val is not None)
                    was_stale = bool(stale.get(prop))
                    if was_stale and not writes:
                        fetch(prop)
                        was_stale = False
                    v = view(prop)
                    before = dict(v)
                    if what == "set_attr" and attr in CSP_ATTRS:
                        setattr(v, attr, val)
                        if getattr(v, attr) != val:
                            vio(f"{prop}/typed-readback-wrong", f"csp.{attr} = {val!r} reads back {getattr(v, attr)!r}")
                    elif what == "del_attr" and attr in CSP_ATTRS:
                        delattr(v, attr)
                    elif what == "setitem":
                        v["x-directive"] = val or "v"
                    elif what == "delitem":
                        if "x-directive" in v:
                            v.pop("x-directive")
                        else:
                            v.pop("x-directive", None)
                    elif what == "clear":
                        v.clear()
                    elif what == "assign_str":
                        setattr(resp, prop, "default-src 'self'; img-src *")
                        fetch(prop)
                    elif what == "assign_dict":
                        setattr(resp, prop, ds.ContentSecurityPolicy({"script-src": "'none'"}))
                        fetch(prop)
                    elif what == "assign_none":
                        setattr(resp, prop, None)
                        if resp.headers.get(HNAME[prop]) is not None:
                            vio(f"{prop}/assign-none-keeps-header", "")
                        fetch(prop)
                    if not what.startswith("assign") and (dict(v) != before or what == "clear" or was_stale):
                        normalised[prop] = True
                        nmut += 1
                    if was_stale:
                        stale[prop] = False
                        out.probe("write_through_stale_view")
                elif kind == "cr" and len(op) >= 6:
                    _, what, start, stop, length, units = op[:6]
                    ok = lambda x: x is None or (isinstance(x, int) and 0 <= x < 10**6)  # noqa: E731
                    if not (ok(start) and ok(stop) and ok(length)) or units not in ("bytes", "items"):
                        continue
                    if (start is None) != (stop is None) or (start is not None and (stop <= start or (length is not None and start >= length))):
                        continue
                    v = view("content_range")
                    if what == "set":
                        v.set(start, stop, length, units)
                        if cr_tuple(v) != (units, start, stop, length):
                            vio("content_range/set-readback-wrong", f"{cr_tuple(v)}")
                        normalised["content_range"] = True
                        nmut += 1
                    elif what == "unset":
                        v.unset()
                        normalised["content_range"] = True
                        nmut += 1
                    elif what == "attr_length" and v:
                        newlen = (v.stop + 50) if v.stop is not None else (0 if length == 0 else 77)
                        v.length = newlen
                        if v.length != newlen:
                            vio("content_range/attribute-readback-wrong", f"length = {newlen} reads back {v.length}")
                        normalised["content_range"] = True
                    elif what == "attr_units" and v:
                        v.units = units
                        normalised["content_range"] = True
                    elif what == "assign_obj":
                        resp.content_range = ds.ContentRange(units, start, stop, length)
                        fetch("content_range")
                    elif what == "assign_str":
                        resp.content_range = "bytes 0-4/10"
                        fetch("content_range")
                    elif what == "assign_none":
                        resp.content_range = None
                        if "Content-Range" in resp.headers:
                            vio("content_range/assign-none-keeps-header", "")
                        fetch("content_range")
                elif kind == "mp" and len(op) >= 4:
                    _, what, key, val = op[:4]
                    key, val = str(key), str(val)
                    v = view("mimetype_params")
                    if what == "setitem":
                        v[key] = val
                    elif what == "delitem":
                        if key in v:
                            del v[key]
                    elif what == "pop":
                        if key in v and len(val) % 2:
                            v.pop(key)
                        else:
                            v.pop(key, None)
                    elif what == "clear":
                        v.clear()
                    elif what == "update":
                        v.update({key: val, "x": "1"})
                    elif what == "setdefault":
                        v.setdefault(key, val)
                    got = http.parse_options_header(resp.headers.get("Content-Type"))[1]
                    if got != dict(v):
                        vio(f"mimetype_params/header-differs-from-view/after={what}", f"Content-Type {resp.headers.get('Content-Type')!r} carries {got!r}, view {dict(v)!r}")
                    nmut += 1
                elif kind == "sc" and len(op) >= 4:
                    self.scalar(resp, op[1], op[2], op[3] if isinstance(op[3], int) else 0, vio)
                    if op[1] in ("content_type", "mimetype") and "mimetype_params" in views:
                        fetch("mimetype_params")
                elif kind == "hdr" and len(op) >= 4 and op[1] in RAW_TEXT:
                    _, name, what, ti = op[:4]
                    if what == "del":
                        if name == "Content-Type":
                            continue
                        resp.headers.pop(name, None)
                    else:
                        resp.headers[name] = RAW_TEXT[name][ti % 4 if isinstance(ti, int) else 0]
                    if name in PROP_OF and PROP_OF[name] in views:
                        if len(op) > 4 and op[4] and PROP_OF[name] in ("cache_control", "content_security_policy", *HS_PROPS):
                            stale[PROP_OF[name]] = True
                        else:
                            fetch(PROP_OF[name])
                else:
                    continue
            except Exception as e:  # noqa: BLE001
                vio(f"{kind}/operation-raises/{type(e).__name__}/op={op[1] if kind in ('cc', 'wa', 'cr', 'mp') else (op[2] if len(op) > 2 else '')}", f"{op!r}: {type(e).__name__}: {e}")
                break
            tr.add("op", op, "->", sorted((k, v) for k, v in resp.headers if k != "Date"))
            check(f"{kind}:{op[2] if kind in ('hs', 'csp') and len(op) > 2 else op[1]}")
        out.digest = tr.digest()
        out.trace = tr.events
        out.steps = len(case.get("ops", []))
        out.nontrivial = nmut >= 2
        out.key = repr(case.get("ops"))
        out.config = "wrapper" if case.get("wrapper") else "sansio"
        out.fault("simulated_clock_read", 1)
        out.sim_time = 0.0
        return out

    def scalar(self, resp, name: str, what: str, vi: int, vio) -> None:
        from werkzeug.http import COEP
        from werkzeug.http import COOP

        if name not in SCALARS:
            return
        if what == "del":
            if name == "etag":
                resp.headers.pop("ETag", None)
                if resp.get_etag() != (None, None):
                    vio("scalar/etag/readback-wrong", f"{resp.get_etag()}")
                return
            if name == "mimetype":
                return
            if name == "content_type":
                return
            if name == "retry_after":
                resp.retry_after = None
            elif name == "access_control_allow_credentials":
                resp.access_control_allow_credentials = False
            else:
                delattr(resp, name)
            got = getattr(resp, name)
            empty = {"access_control_allow_credentials": False, "cross_origin_opener_policy": COOP.UNSAFE_NONE, "cross_origin_embedder_policy": COEP.UNSAFE_NONE}.get(name)
            if got != empty:
                vio(f"scalar/{name}/deleted-property-still-reads", f"{got!r}")
            return
        naive = dt.datetime(2023, 1, 2, 3, 4, 5, 678901)
        aware = dt.datetime(2023, 6, 7, 8, 9, 10, 999999, tzinfo=dt.timezone(dt.timedelta(hours=5, minutes=30)))
        dates = [naive, aware, dt.datetime(1999, 12, 31, 23, 59, 59, tzinfo=UTC), SIM_NOW]

        def norm(d):
            d = d.replace(tzinfo=UTC) if d.tzinfo is None else d.astimezone(UTC)
            return d.replace(microsecond=0)

        if name in ("date", "expires", "last_modified"):
            val = dates[vi % 4]
            setattr(resp, name, val)
            exp = norm(val)
        elif name == "retry_after":
            if vi % 2:
                val = [0, 120, 3600][vi % 3]
                resp.retry_after = val
                exp = SIM_NOW + dt.timedelta(seconds=val)
            else:
                val = dates[vi % 4]
                resp.retry_after = val
                exp = norm(val)
        elif name == "age":
            val = [0, 5, dt.timedelta(minutes=2), 99999][vi % 4]
            resp.age = val
            exp = dt.timedelta(seconds=val) if isinstance(val, int) else val
        elif name in ("content_length", "access_control_max_age"):
            val = [0, 1, 1024, 10**12][vi % 4]
            setattr(resp, name, val)
            exp = val
        elif name == "etag":
            tag, weak = ["abc", "x y", "", "q"][vi % 4], vi % 2 == 0
            resp.set_etag(tag, weak)
            got = resp.get_etag()
            if got != (tag, weak):
                vio("scalar/etag/readback-wrong", f"set_etag({tag!r}, {weak}) reads back {got!r}")
            return
        elif name == "mimetype":
            val = ["text/plain", "application/json", "text/html", "image/png"][vi % 4]
            resp.mimetype = val
            exp = val
        elif name in ("access_control_allow_headers", "access_control_allow_methods", "access_control_expose_headers"):
            val = [["X-A", "X-B"], ["GET"], ["x-a", "X-A", "Content-Type"], []][vi % 4]
            setattr(resp, name, val)
            got = getattr(resp, name)
            want = HeaderSetModel(val).l
            if (list(got) if got is not None else []) != want:
                vio(f"scalar/{name}/readback-wrong", f"= {val!r} reads back {got!r}, expected items {want!r}")
            return
        elif name == "access_control_allow_credentials":
            val = bool(vi % 2)
            resp.access_control_allow_credentials = val
            exp = val
        elif name == "cross_origin_opener_policy":
            val = list(COOP)[vi % len(list(COOP))]
            resp.cross_origin_opener_policy = val
            exp = val
        elif name == "cross_origin_embedder_policy":
            val = list(COEP)[vi % len(list(COEP))]
            resp.cross_origin_embedder_policy = val
            exp = val
        else:
            val = ["/next", "gzip", "https://example.com", "text/plain; charset=utf-8", "bytes", "a b"][vi % 6]
            setattr(resp, name, val)
            exp = val
        got = getattr(resp, name)
        if got != exp or (isinstance(exp, dt.datetime) and (got.tzinfo is None or got.utcoffset() != dt.timedelta(0))):
            vio(f"scalar/{name}/readback-wrong", f"resp.{name} = {val!r} reads back {got!r}, expected {exp!r}")


SCENARIOS = [ResponseViews()]
