"""The harness's own multipart/form-data renderer and workload generator.

Independent of werkzeug's ``MultipartEncoder`` so that an encoder defect
cannot mask a decoder defect.  Bodies are well-formed by construction:
``--boundary`` never occurs inside a payload or the preamble.
"""
from __future__ import annotations

import random

from dsim.core import b2s
from dsim.core import s2b

BCHARS = "0123456789abcdefghijklmnopqrstuvwxyzABCDEFGHIJKLMNOPQRSTUVWXYZ'()+_,-./:=?"
NL = {"crlf": b"\r\n", "lf": b"\n", "cr": b"\r"}


def gen_boundary(rng: random.Random) -> str:
    style = rng.randrange(6)
    if style == 0:
        n = 1
    elif style == 1:
        n = rng.randrange(2, 6)
    elif style == 2:
        n = 70
    else:
        n = rng.randrange(4, 40)
    chars = BCHARS if rng.random() < 0.4 else "abcdefghijklmnopqrstuvwxyz0123456789-"
    b = "".join(rng.choice(chars) for _ in range(n))
    # a boundary may not end in a space; ours never contains one.  Avoid a
    # boundary that is all dashes only because it makes "--" + boundary + "--" ambiguous to read
    if set(b) == {"-"}:
        b = b[:-1] + "x"
    return b


def gen_payload(rng: random.Random, boundary: bytes, style: str, maxlen: int) -> bytes:
    nl = NL[style]
    delim = nl + b"--" + boundary
    atoms: list[bytes] = [
        b"a",
        b"xyz",
        b"-",
        b"--",
        b"---",
        nl,
        nl + nl,
        nl + b"-",
        nl + b"--",
        delim[: rng.randrange(1, len(delim))],  # proper prefix of the delimiter
        b"--" + boundary[:-1] + (b"!" if boundary[-1:] != b"!" else b"?"),  # look-alike, last char changed
        nl + b"--" + boundary[:-1],
        b"\x00",
        b"\xff\xfe",
        b"y" * rng.choice([1, 7, 30, len(boundary) + 9, len(boundary) + 20]),
        b" ",
        b"\t",
        # valid multi-byte UTF-8: a cut may fall inside a character of a text field
        "\u00e9".encode(), "\u20ac".encode(), "\u540d\u524d".encode(), "\U0001f40d".encode(), ("\u2603" * 9).encode(),
    ]
    if style == "crlf":
        atoms += [b"\r", b"\n", b"\n\r", b"\r\r\n", b"x\n", b"\r--" + boundary[:-1], b"\n--" + boundary[:-1]]
    kind = rng.randrange(10)
    if kind == 0:
        return b""
    if kind == 1:
        out = rng.choice(atoms)
    else:
        n = rng.choice([1, 2, 3, 5, 8, 20]) if maxlen < 200 or rng.random() < 0.8 else rng.randrange(20, 200)
        out = b"".join(rng.choice(atoms) for _ in range(n))
    out = out[:maxlen]
    needle = b"--" + boundary
    while needle in out:
        i = out.index(needle)
        out = out[:i] + b"-_" + out[i + 2 :]
    # a payload ending in a strict prefix of nl followed by the delimiter is still
    # well-formed (the decoder must find the leftmost full delimiter)
    return out


NAMES = ["a", "b", "field", "f1", "file", "名前", "x y", "a.b", "n" * 30]
FILENAMES = ["a.txt", "b", "ü.png", "my file.bin", "x" * 40, ""]
EXTRA_HEADERS = [
    ["Content-Type", "text/plain"],
    ["Content-Type", "text/plain; charset=utf-8"],
    ["Content-Type", "application/octet-stream"],
    ["X-Custom", "v"],
    ["X-Long", "w" * 50],
    ["Content-Length", "3"],
]


def gen_parts(rng: random.Random, boundary: bytes, style: str, max_parts: int, maxlen: int, bodyless_ok: bool = True) -> list[dict]:
    parts = []
    n = rng.choice([0, 1, 1, 2, 2, 3, 4, max_parts]) if max_parts > 4 else rng.randrange(0, max_parts + 1)
    for _ in range(n):
        is_file = rng.random() < 0.5
        hdrs = [list(h) for h in rng.sample(EXTRA_HEADERS, rng.choice([0, 0, 1, 1, 2]))]
        seen = set()
        hdrs = [h for h in hdrs if not (h[0] in seen or seen.add(h[0]))]
        p = {
            "kind": "file" if is_file else "field",
            "name": rng.choice(NAMES),
            "filename": rng.choice(FILENAMES) if is_file else None,
            "headers": hdrs,
            "fold": rng.random() < 0.08,
            "bodyless": bodyless_ok and rng.random() < 0.15,
            "payload": "",
        }
        if not p["bodyless"]:
            p["payload"] = b2s(gen_payload(rng, boundary, style, maxlen))
        parts.append(p)
    return parts


def gen_body_spec(rng: random.Random, max_parts: int = 6, maxlen: int = 300, styles=("crlf", "crlf", "crlf", "lf", "cr")) -> dict:
    style = rng.choice(styles)
    boundary = gen_boundary(rng)
    bb = boundary.encode("ascii")
    spec = {
        "boundary": boundary,
        "newline": style,
        "preamble": rng.choice(["", "", "", "preamble text", "two\nlines" if style == "lf" else "pre", "-", "--"]),
        "lead_nl": rng.random() < 0.2,
        "epilogue": rng.choice(["", "", "", "epilogue", "--", "\r\n" if style == "crlf" else ""]),
        "final_nl": rng.random() < 0.8,
        # transport padding after a boundary (RFC 2046 LWSP), also longer than the decoder's look-behind window
        "padding": rng.choice(["", "", "", "", " ", "\t ", "   ", " " * 7, " \t" * 6, " " * 40]),
        "parts": gen_parts(rng, bb, style, max_parts, maxlen),
    }
    if ("--" + boundary) in spec["preamble"]:
        spec["preamble"] = ""
    return spec


def render(spec: dict) -> tuple[bytes, list[dict]]:
    """Render the body; also return per-part offsets for structure-biased
    schedules and probes: ``{"hdr": start of the part's delimiter line,
    "blank": offset just after the header block's blank line, "data": (start,
    end) of the payload, "delim": (start, end) of the delimiter that ends it}``."""
    nl = NL.get(spec.get("newline", "crlf"), b"\r\n")
    boundary = str(spec.get("boundary", "b")).encode("ascii", "replace") or b"b"
    pad = s2b(spec.get("padding", ""))
    out = bytearray()
    pre = s2b(spec.get("preamble", ""))
    if pre:
        out += pre + nl
    elif spec.get("lead_nl"):
        out += nl
    marks = []
    parts = spec.get("parts", [])
    out += b"--" + boundary
    for i, p in enumerate(parts):
        m = {"hdr": len(out)}
        out += pad + nl
        cd = 'Content-Disposition: form-data; name="%s"' % p.get("name", "")
        if p.get("kind") == "file":
            cd += '; filename="%s"' % (p.get("filename") or "")
        if p.get("fold"):
            cd = cd.replace("; name=", ";" + nl.decode() + " name=", 1)
        out += cd.encode("utf-8") + nl
        for k, v in p.get("headers", []):
            out += f"{k}: {v}".encode("utf-8") + nl
        if p.get("bodyless"):
            m["blank"] = len(out)
            m["data"] = (len(out), len(out))
            m["delim"] = (len(out), len(out) + len(nl) + 2 + len(boundary))
            out += nl + b"--" + boundary
        else:
            out += nl
            m["blank"] = len(out)
            payload = s2b(p.get("payload", ""))
            m["data"] = (len(out), len(out) + len(payload))
            out += payload
            m["delim"] = (len(out), len(out) + len(nl) + 2 + len(boundary))
            out += nl + b"--" + boundary
        marks.append(m)
    out += b"--" + pad
    if spec.get("final_nl", True):
        out += nl
    out += s2b(spec.get("epilogue", ""))
    return bytes(out), marks


def truth(spec: dict) -> list[tuple]:
    """Ground truth in the normal form used by the oracles."""
    out = []
    for p in spec.get("parts", []):
        is_file = p.get("kind") == "file"
        out.append(
            (
                "file" if is_file else "field",
                p.get("name", ""),
                (p.get("filename") or "") if is_file else None,
                b"" if p.get("bodyless") else s2b(p.get("payload", "")),
            )
        )
    return out


def structural_offsets(body: bytes, marks: list[dict]) -> list[int]:
    """Offsets around which in-flight decoder state exists."""
    offs = set()
    for m in marks:
        for base in (m["hdr"], m["blank"], m["data"][0], m["data"][1], m["delim"][0], m["delim"][1]):
            for d in range(-3, 4):
                offs.add(base + d)
    # every CR / LF in the body
    for i, ch in enumerate(body):
        if ch in (10, 13):
            offs.add(i)
            offs.add(i + 1)
    n = len(body)
    offs |= {n - 1, n - 2, n - 3, n - 4}
    return sorted(o for o in offs if 0 < o < n)
