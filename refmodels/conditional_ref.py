"""Declarative reference for conditional and range requests (C11).

Written from the property statement / RFC 7232-7233 wording, not from the
implementation.  Where the property leaves a grey area the functions return a
*set* of admissible outcomes.
"""
from __future__ import annotations

import datetime as dt


def weak_match(current: tuple[str, bool] | None, tags: list[tuple[str, bool]], star: bool) -> bool:
    """Weak comparison: opaque tags equal, weakness ignored; ``*`` matches any
    current representation that has an entity tag."""
    if current is None:
        return False
    return star or any(t == current[0] for t, _ in tags)


def if_match_admits(current: tuple[str, bool], tags: list[tuple[str, bool]], star: bool) -> set[bool]:
    """Admissible verdicts for If-Match.  ``*`` admits; a strong tag equal to a
    strong current tag admits.  When weakness is involved (RFC: never a strong
    match; the property: silent) both verdicts are accepted."""
    if star:
        return {True}
    same = [w for t, w in tags if t == current[0]]
    if not same:
        return {False}
    if not current[1] and any(not w for w in same):
        return {True}
    return {True, False}


def trunc(d: dt.datetime) -> dt.datetime:
    return d.replace(microsecond=0)


def expected_conditional(method: str, current_etag, last_modified, inm, im, ims) -> set[int]:
    """Admissible statuses (without Range) for GET/HEAD/POST.

    ``inm`` / ``im``: None or (tags, star); ``ims``: None or an aware datetime.
    """
    if method not in ("GET", "HEAD"):
        return {200}
    if im is not None and current_etag is not None:
        verdicts = if_match_admits(current_etag, im[0], im[1])
        out = set()
        if True in verdicts:
            # the precondition holds: the request proceeds to the remaining validator (RFC 9110 13.2.2 steps 1 -> 3/4)
            if ims is not None and last_modified is not None and trunc(last_modified) <= ims:
                out.add(304)
            else:
                out.add(200)
        if False in verdicts:
            out.add(412)
        return out
    if inm is not None and current_etag is not None:
        return {304} if weak_match(current_etag, inm[0], inm[1]) else {200}
    if ims is not None and last_modified is not None:
        return {304} if trunc(last_modified) <= ims else {200}
    return {200}


def expected_range(spec: dict, length: int) -> set:
    """Admissible outcomes for a structurally generated Range header against a
    resource of ``length`` bytes: ``("206", start, stop_inclusive)``, ``"416"``
    or ``"200"``."""
    kind = spec["kind"]
    if length == 0:
        return {"200", "416"}
    if kind == "first-last":
        a, b = spec["a"], spec["b"]
        if a > b:
            return {"416"}
        if a >= length:
            return {"416"}
        return {("206", a, min(b, length - 1))}
    if kind == "first-":
        a = spec["a"]
        return {"416"} if a >= length else {("206", a, length - 1)}
    if kind == "suffix":
        n = spec["n"]
        if n == 0:
            return {"416"}
        return {("206", max(0, length - n), length - 1)}
    if kind == "multi":
        return {"416"}
    if kind == "other-unit":
        return {"416", "200"}
    if kind == "malformed":
        return {"416"}
    raise ValueError(kind)


def render_range(spec: dict) -> str:
    kind = spec["kind"]
    ws = spec.get("ws", 0)
    if kind == "first-last":
        core = f"{spec['a']}-{spec['b']}"
    elif kind == "first-":
        core = f"{spec['a']}-"
    elif kind == "suffix":
        core = f"-{spec['n']}"
    elif kind == "multi":
        core = ",".join(render_range(p).split("=", 1)[1] for p in spec["parts"])
    elif kind == "other-unit":
        return f"{spec.get('unit', 'items')}={spec['a']}-{spec['b']}"
    else:
        return spec["text"]
    unit = "bytes"
    if ws == 1:
        return f"{unit}= {core}"
    if ws == 2:
        return f"{unit}={core} "
    if ws == 3:
        return f" {unit}={core}"
    if ws == 4:
        return f"{unit} ={core}"
    if ws == 5:
        return f"{unit}={core.replace('-', ' - ', 1)}"
    if ws == 6:
        return f"{unit.upper()}={core}"
    return f"{unit}={core}"
