"""Independent, strict reference implementations used as oracles for the dev
server scenarios: chunked framing (encode / decode), HTTP response parsing,
percent-decoding of request paths.  Deliberately small and written without
looking at werkzeug's implementation."""
from __future__ import annotations

HEX = b"0123456789abcdefABCDEF"


def chunk_encode(pieces: list[bytes], *, upper: list[bool] | None = None, pad: list[int] | None = None, nl: list[bytes] | None = None, final_nl: bytes = b"\r\n") -> bytes:
    out = bytearray()
    for i, p in enumerate(pieces):
        if not p:
            continue
        h = format(len(p), "X" if (upper and upper[i % len(upper)]) else "x")
        if pad:
            h = "0" * pad[i % len(pad)] + h
        eol = nl[i % len(nl)] if nl else b"\r\n"
        out += h.encode() + eol + p + eol
    out += b"0" + final_nl + final_nl
    return bytes(out)


def dechunk_strict(wire: bytes) -> tuple[bytes, str | None, int]:
    """Decode chunked framing.  Returns (payload decodable before any error,
    error description or None, number of wire bytes consumed).  Accepts CRLF or
    bare LF line ends, hex sizes in either case with leading zeros, no chunk
    extensions, no trailers - the grammar the property quantifies over."""
    pos = 0
    out = bytearray()
    n = len(wire)
    while True:
        eol = wire.find(b"\n", pos)
        if eol < 0:
            return bytes(out), "unterminated chunk header", pos
        # surrounding blanks (incl. a doubled CR) around the size are tolerated: the property's malformed
        # categories are truncated, negative, non-hex and unterminated headers, not padding
        line = wire[pos:eol].strip(b" \t\r\x0b\x0c\x1c\x1d\x1e\x1f\x85\xa0")
        if not line or any(c not in HEX for c in line):
            return bytes(out), f"invalid chunk size {line[:20]!r}", pos
        size = int(line, 16)
        pos = eol + 1
        if size == 0:
            # final chunk: a blank line must follow
            if wire[pos : pos + 2] == b"\r\n":
                return bytes(out), None, pos + 2
            if wire[pos : pos + 1] == b"\n":
                return bytes(out), None, pos + 1
            return bytes(out), "missing final blank line", pos
        data = wire[pos : pos + size]
        out += data
        if len(data) < size:
            return bytes(out), "truncated chunk data", n
        pos += size
        if wire[pos : pos + 2] == b"\r\n":
            pos += 2
        elif wire[pos : pos + 1] == b"\n":
            pos += 1
        else:
            return bytes(out), "missing chunk terminator", pos


def parse_response(raw: bytes, head_request: bool = False) -> dict:
    """Strict parse of one HTTP response followed by connection close."""
    res: dict = {"error": None, "interim": []}
    pos = 0
    while True:
        end = raw.find(b"\r\n\r\n", pos)
        if end < 0:
            res["error"] = "no header terminator"
            return res
        head = raw[pos:end].split(b"\r\n")
        pos = end + 4
        parts = head[0].split(b" ", 2)
        if len(parts) < 2 or not parts[0].startswith(b"HTTP/1."):
            res["error"] = f"bad status line {head[0][:40]!r}"
            return res
        try:
            code = int(parts[1])
        except ValueError:
            res["error"] = f"bad status code {parts[1][:10]!r}"
            return res
        reason = parts[2].decode("latin-1") if len(parts) > 2 else ""
        headers = []
        for line in head[1:]:
            k, sep, v = line.partition(b":")
            if not sep:
                res["error"] = f"bad header line {line[:40]!r}"
                return res
            headers.append((k.decode("latin-1"), v.strip(b" \t").decode("latin-1")))
        # an interim "100 Continue" written by the server itself has no headers and is followed by the real response
        if code == 100 and not headers and raw[pos : pos + 5] == b"HTTP/":
            res["interim"].append(code)
            continue
        break
    res.update(version=parts[0].decode(), code=code, reason=reason, headers=headers)
    low = [(k.lower(), v) for k, v in headers]
    te = [v for k, v in low if k == "transfer-encoding"]
    cl = [v for k, v in low if k == "content-length"]
    rest = raw[pos:]
    res["chunked"] = bool(te)
    nobody = head_request or 100 <= code < 200 or code in (204, 304)
    if te:
        if [v.lower() for v in te] != ["chunked"]:
            res["error"] = f"unexpected Transfer-Encoding {te}"
            return res
        body, err, used = dechunk_strict(rest)
        if err:
            res["error"] = "response chunk framing: " + err
        elif used != len(rest):
            res["error"] = f"{len(rest) - used} bytes after the final chunk"
        res["body"] = body
    elif nobody:
        res["body"] = rest  # must be empty; judged by the caller
    elif cl:
        try:
            n = int(cl[0])
        except ValueError:
            res["error"] = "bad Content-Length"
            return res
        res["body"] = rest[:n]
        if len(rest) != n:
            res["error"] = f"Content-Length {n} but {len(rest)} body bytes on the wire"
            res["body"] = rest
    else:
        res["body"] = rest
    return res


def percent_decode(path: bytes) -> bytes:
    out = bytearray()
    i = 0
    while i < len(path):
        c = path[i]
        if c == 0x25 and i + 2 < len(path) + 0 and all(ch in HEX for ch in path[i + 1 : i + 3]) and len(path[i + 1 : i + 3]) == 2:
            out.append(int(path[i + 1 : i + 3], 16))
            i += 3
        else:
            out.append(c)
            i += 1
    return bytes(out)
