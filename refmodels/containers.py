"""Reference models for werkzeug's multi-value containers (C08).

* ``MDModel``      - an insertion-ordered multimap (dict of lists in
  first-insertion key order): MultiDict / ImmutableMultiDict / FileMultiDict,
  and - as a function of the wrapped models - CombinedMultiDict.
* ``HeadersModel`` - an ordered list of (key, value) pairs with case-folded
  key comparison: Headers, and EnvironHeaders as a function of the environ.
* ``HeaderSetModel`` - a case-insensitive ordered set.

Written from the documented behaviour (docstrings), not from the code.
"""
from __future__ import annotations

KEYERROR = "<KeyError>"


def iter_multi(arg):
    """The documented input forms: pairs, dict, dict of lists/tuples/sets, another model."""
    if isinstance(arg, MDModel):
        for k, vs in arg.d.items():
            for v in vs:
                yield k, v
    elif isinstance(arg, dict):
        for k, v in arg.items():
            if isinstance(v, (list, tuple, set)):
                for x in v:
                    yield k, x
            else:
                yield k, v
    else:
        yield from arg


def conv_int(v):
    """The converter used by the histories: int() semantics on the alphabet."""
    return int(v)


class MDModel:
    def __init__(self, arg=None) -> None:
        self.d: dict = {}
        if arg is not None:
            for k, v in iter_multi(arg):
                self.d.setdefault(k, []).append(v)

    def copy(self) -> "MDModel":
        m = MDModel()
        m.d = {k: list(v) for k, v in self.d.items()}
        return m

    # reads -------------------------------------------------------------
    def getitem(self, k):
        vs = self.d.get(k)
        return vs[0] if vs else KEYERROR

    def get(self, k, default=None, conv=None):
        v = self.getitem(k)
        if v is KEYERROR:
            return default
        if conv is None:
            return v
        try:
            return conv(v)
        except (ValueError, TypeError):
            return default

    def getlist(self, k, conv=None):
        vs = self.d.get(k, [])
        if conv is None:
            return list(vs)
        out = []
        for v in vs:
            try:
                out.append(conv(v))
            except (ValueError, TypeError):
                pass
        return out

    def items(self, multi=False):
        if multi:
            if getattr(self, "multi_items", None) is not None:
                return list(self.multi_items)
            return [(k, v) for k, vs in self.d.items() for v in vs]
        return [(k, vs[0]) for k, vs in self.d.items() if vs]

    def lists(self):
        return [(k, list(vs)) for k, vs in self.d.items()]

    def keys(self):
        return list(self.d)

    def values(self):
        return [vs[0] for vs in self.d.values() if vs]

    def listvalues(self):
        return [list(vs) for vs in self.d.values()]

    def to_dict(self, flat=True):
        if flat:
            return dict(self.items())
        return dict(self.lists())

    # mutators ------------------------------------------------------------
    def setitem(self, k, v):
        self.d[k] = [v]

    def add(self, k, v):
        self.d.setdefault(k, []).append(v)

    def setlist(self, k, vs):
        self.d[k] = list(vs)

    def setdefault(self, k, default):
        if not self.d.get(k):  # a key without values has nothing to return: the default is stored
            self.d[k] = [default]
        return self.getitem(k)

    def setlistdefault(self, k, vs):
        if k not in self.d:
            self.d[k] = list(vs)
        return list(self.d[k])

    def update(self, arg):
        for k, v in iter_multi(arg):
            self.add(k, v)

    def delitem(self, k):
        if k in self.d:
            del self.d[k]
            return None
        return KEYERROR

    def pop(self, k, default=KEYERROR):
        if k in self.d:
            vs = self.d.pop(k)
            if vs:
                return vs[0]
        return default

    def popitem(self):
        if not self.d:
            return KEYERROR
        k = next(reversed(self.d))
        vs = self.d.pop(k)
        return (k, vs[0]) if vs else KEYERROR

    def poplist(self, k):
        return self.d.pop(k, [])

    def popitemlist(self):
        if not self.d:
            return KEYERROR
        k = next(reversed(self.d))
        return (k, self.d.pop(k))

    def clear(self):
        self.d.clear()


def combined(models: list[MDModel]) -> MDModel:
    """What a CombinedMultiDict over these dicts must read like: the first
    dict that has a key wins for single-value reads, list reads concatenate."""
    m = MDModel()
    for sub in models:
        for k, vs in sub.d.items():
            m.d.setdefault(k, []).extend(vs)
    # "combines the return values of all wrapped dicts": the multi item view is the concatenation
    m.multi_items = [kv for sub in models for kv in sub.items(True)]
    return m


class HeadersModel:
    def __init__(self, pairs=None) -> None:
        self.l: list = [(k, v) for k, v in (pairs or [])]

    def copy(self) -> "HeadersModel":
        return HeadersModel(self.l)

    @staticmethod
    def eq(a: str, b: str) -> bool:
        return a.lower() == b.lower()

    def getitem(self, k):
        for kk, v in self.l:
            if self.eq(kk, k):
                return v
        return KEYERROR

    def get(self, k, default=None, conv=None):
        v = self.getitem(k)
        if v is KEYERROR:
            return default
        if conv is None:
            return v
        try:
            return conv(v)
        except ValueError:
            return default

    def getlist(self, k, conv=None):
        out = []
        for kk, v in self.l:
            if self.eq(kk, k):
                if conv is None:
                    out.append(v)
                else:
                    try:
                        out.append(conv(v))
                    except ValueError:
                        pass
        return out

    def contains(self, k):
        return self.getitem(k) is not KEYERROR

    def add(self, k, v):
        self.l.append((k, v))

    def remove(self, k):
        self.l = [(kk, v) for kk, v in self.l if not self.eq(kk, k)]

    def set(self, k, v):
        for i, (kk, _) in enumerate(self.l):
            if self.eq(kk, k):
                self.l[i] = (k, v)
                self.l[i + 1 :] = [(a, b) for a, b in self.l[i + 1 :] if not self.eq(a, k)]
                return
        self.l.append((k, v))

    def setlist(self, k, vs):
        vs = list(vs)
        if not vs:
            self.remove(k)
            return
        self.set(k, vs[0])
        for v in vs[1:]:
            self.add(k, v)

    def setdefault(self, k, v):
        cur = self.getitem(k)
        if cur is not KEYERROR:
            return cur
        self.set(k, v)
        return v

    def setlistdefault(self, k, vs):
        if not self.contains(k):
            self.setlist(k, vs)
        return self.getlist(k)

    def extend(self, arg):
        for k, v in iter_multi_headers(arg):
            self.add(k, v)

    def update(self, arg):
        if isinstance(arg, (HeadersModel, MDModel)):
            # "replace headers with items from another object": every key the other object lists is replaced
            for k in arg.keys():
                self.setlist(k, arg.getlist(k))
        elif isinstance(arg, dict):
            for k, v in arg.items():
                if isinstance(v, (list, tuple, set)):
                    self.setlist(k, v)
                else:
                    self.set(k, v)
        else:
            for k, v in arg:
                self.set(k, v)

    def keys(self):
        return [k for k, _ in self.l]

    def pop_key(self, k, default=KEYERROR):
        v = self.getitem(k)
        if v is KEYERROR:
            return default
        self.remove(k)
        return v


def iter_multi_headers(arg):
    if isinstance(arg, HeadersModel):
        yield from arg.l
    else:
        yield from iter_multi(arg)


class HeaderSetModel:
    """Case-insensitive ordered set; the first spelling added is kept."""

    def __init__(self, items=()) -> None:
        self.l: list[str] = []
        for i in items:
            self.add(i)

    def copy(self):
        m = HeaderSetModel()
        m.l = list(self.l)
        return m

    def find(self, h: str) -> int:
        for i, x in enumerate(self.l):
            if x.lower() == h.lower():
                return i
        return -1

    def add(self, h: str) -> bool:
        if self.find(h) < 0:
            self.l.append(h)
            return True
        return False

    def remove(self, h: str):
        i = self.find(h)
        if i < 0:
            return KEYERROR
        del self.l[i]
        return True

    def discard(self, h: str) -> bool:
        return self.remove(h) is True

    def update(self, items) -> bool:
        changed = False
        for i in items:
            changed = self.add(i) or changed
        return changed

    def clear(self) -> bool:
        had = bool(self.l)
        self.l = []
        return had

    def to_header(self) -> str:
        out = []
        for x in self.l:
            token = all(c.isalnum() or c in "!#$%&'*+-.^_`|~" for c in x) and x != ""
            out.append(x if token else '"' + x.replace("\\", "\\\\").replace('"', '\\"') + '"')
        return ", ".join(out)
